\* quick design run (M): 2 inputs, NAND2 / XOR2 / AND2 / OR2, times 0..3, <= 2 transitions, polarity-independent delays {0,1,3}, capacity 4
CONSTANTS
  NIN = 2
  LUTS = {30583, 26214, 34952, 61166}
  TGRID = 3
  MAXTR = 2
  DVALS = {0, 1, 3}
  CAPS = {4}
  POLDEP = FALSE
SPECIFICATION Spec
INVARIANT TypeOK
INVARIANT Functional
INVARIANT Window
INVARIANT Monotone
INVARIANT Quiet
INVARIANT OvlFlag
INVARIANT EdgeIsInputPlusDelay
INVARIANT CountsMatch
INVARIANT WithinCap
CHECK_DEADLOCK FALSE
