\* all graphs with 3 nodes x 2 pins x any state-element subset (32 768 graphs)
CONSTANTS N = 3
 NPIN = 2
 COUNTALL = FALSE
SPECIFICATION Spec
INVARIANT Refines
INVARIANT NoDuplicates
CHECK_DEADLOCK FALSE
