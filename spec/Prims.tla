------------------------------- MODULE Prims -------------------------------
(***************************************************************************)
(* The 33 simulation primitives of kyupy.sim (layer V): their Boolean      *)
(* functions over the operands i0..i3 (Prim2), their multi-valued meaning  *)
(* as compositions of the documented operators (Prim8 - the composition    *)
(* documentation and logic_sim.py use for complex gates), the 16-bit       *)
(* look-up constant of each (LutOf), and the rule that maps a node kind    *)
(* and its connected pins to a primitive (family by name, arity = highest  *)
(* connected pin among the first four, at least 2; open pins read 0).      *)
(***************************************************************************)
EXTENDS Logic
PRIMS == {"buf1","inv1","and2","and3","and4","nand2","nand3","nand4","or2","or3","or4","nor2","nor3","nor4",
          "xor2","xor3","xor4","xnor2","xnor3","xnor4","ao21","aoi21","oa21","oai21","ao22","aoi22","oa22","oai22",
          "ao211","aoi211","oa211","oai211","mux21"}
O(a, b) == IF a + b > 0 THEN 1 ELSE 0
\* Boolean function of each primitive, operands in 0..1
Prim2(k, a, b, c, d) ==
  CASE k = "buf1" -> a [] k = "inv1" -> 1 - a
    [] k = "and2" -> a*b [] k = "and3" -> a*b*c [] k = "and4" -> a*b*c*d
    [] k = "nand2" -> 1 - a*b [] k = "nand3" -> 1 - a*b*c [] k = "nand4" -> 1 - a*b*c*d
    [] k = "or2" -> O(a,b) [] k = "or3" -> O(O(a,b),c) [] k = "or4" -> O(O(a,b),O(c,d))
    [] k = "nor2" -> 1 - O(a,b) [] k = "nor3" -> 1 - O(O(a,b),c) [] k = "nor4" -> 1 - O(O(a,b),O(c,d))
    [] k = "xor2" -> (a+b) % 2 [] k = "xor3" -> (a+b+c) % 2 [] k = "xor4" -> (a+b+c+d) % 2
    [] k = "xnor2" -> 1 - ((a+b) % 2) [] k = "xnor3" -> 1 - ((a+b+c) % 2) [] k = "xnor4" -> 1 - ((a+b+c+d) % 2)
    [] k = "ao21" -> O(a*b, c) [] k = "aoi21" -> 1 - O(a*b, c)
    [] k = "oa21" -> O(a,b) * c [] k = "oai21" -> 1 - O(a,b) * c
    [] k = "ao22" -> O(a*b, c*d) [] k = "aoi22" -> 1 - O(a*b, c*d)
    [] k = "oa22" -> O(a,b) * O(c,d) [] k = "oai22" -> 1 - O(a,b) * O(c,d)
    [] k = "ao211" -> O(O(a*b, c), d) [] k = "aoi211" -> 1 - O(O(a*b, c), d)
    [] k = "oa211" -> O(a,b) * c * d [] k = "oai211" -> 1 - O(a,b) * c * d
    [] k = "mux21" -> IF c = 1 THEN b ELSE a
\* multi-valued meaning: composition of the documented operators
Prim8(k, a, b, c, d) ==
  CASE k = "buf1" -> a [] k = "inv1" -> Not8(a)
    [] k = "and2" -> And8(<<a,b>>) [] k = "and3" -> And8(<<a,b,c>>) [] k = "and4" -> And8(<<a,b,c,d>>)
    [] k = "nand2" -> Not8(And8(<<a,b>>)) [] k = "nand3" -> Not8(And8(<<a,b,c>>)) [] k = "nand4" -> Not8(And8(<<a,b,c,d>>))
    [] k = "or2" -> Or8(<<a,b>>) [] k = "or3" -> Or8(<<a,b,c>>) [] k = "or4" -> Or8(<<a,b,c,d>>)
    [] k = "nor2" -> Not8(Or8(<<a,b>>)) [] k = "nor3" -> Not8(Or8(<<a,b,c>>)) [] k = "nor4" -> Not8(Or8(<<a,b,c,d>>))
    [] k = "xor2" -> Xor8(<<a,b>>) [] k = "xor3" -> Xor8(<<a,b,c>>) [] k = "xor4" -> Xor8(<<a,b,c,d>>)
    [] k = "xnor2" -> Not8(Xor8(<<a,b>>)) [] k = "xnor3" -> Not8(Xor8(<<a,b,c>>)) [] k = "xnor4" -> Not8(Xor8(<<a,b,c,d>>))
    [] k = "ao21" -> Or8(<<And8(<<a,b>>), c>>) [] k = "aoi21" -> Not8(Or8(<<And8(<<a,b>>), c>>))
    [] k = "oa21" -> And8(<<Or8(<<a,b>>), c>>) [] k = "oai21" -> Not8(And8(<<Or8(<<a,b>>), c>>))
    [] k = "ao22" -> Or8(<<And8(<<a,b>>), And8(<<c,d>>)>>) [] k = "aoi22" -> Not8(Or8(<<And8(<<a,b>>), And8(<<c,d>>)>>))
    [] k = "oa22" -> And8(<<Or8(<<a,b>>), Or8(<<c,d>>)>>) [] k = "oai22" -> Not8(And8(<<Or8(<<a,b>>), Or8(<<c,d>>)>>))
    [] k = "ao211" -> Or8(<<And8(<<a,b>>), c, d>>) [] k = "aoi211" -> Not8(Or8(<<And8(<<a,b>>), c, d>>))
    [] k = "oa211" -> And8(<<Or8(<<a,b>>), c, d>>) [] k = "oai211" -> Not8(And8(<<Or8(<<a,b>>), c, d>>))
    [] k = "mux21" -> Or8(<<And8(<<a, Not8(c)>>), And8(<<b, c>>)>>)
\* the same composition over bit planes (what logic_sim.py executes with bp8v_* / bp4v_*)
Bp8Prim(k, a, b, c, d) ==
  CASE k = "buf1" -> a [] k = "inv1" -> Bp8Not(a)
    [] k = "and2" -> Bp8And(<<a,b>>) [] k = "and3" -> Bp8And(<<a,b,c>>) [] k = "and4" -> Bp8And(<<a,b,c,d>>)
    [] k = "nand2" -> Bp8Not(Bp8And(<<a,b>>)) [] k = "nand3" -> Bp8Not(Bp8And(<<a,b,c>>)) [] k = "nand4" -> Bp8Not(Bp8And(<<a,b,c,d>>))
    [] k = "or2" -> Bp8Or(<<a,b>>) [] k = "or3" -> Bp8Or(<<a,b,c>>) [] k = "or4" -> Bp8Or(<<a,b,c,d>>)
    [] k = "nor2" -> Bp8Not(Bp8Or(<<a,b>>)) [] k = "nor3" -> Bp8Not(Bp8Or(<<a,b,c>>)) [] k = "nor4" -> Bp8Not(Bp8Or(<<a,b,c,d>>))
    [] k = "xor2" -> Bp8Xor(<<a,b>>) [] k = "xor3" -> Bp8Xor(<<a,b,c>>) [] k = "xor4" -> Bp8Xor(<<a,b,c,d>>)
    [] k = "xnor2" -> Bp8Not(Bp8Xor(<<a,b>>)) [] k = "xnor3" -> Bp8Not(Bp8Xor(<<a,b,c>>)) [] k = "xnor4" -> Bp8Not(Bp8Xor(<<a,b,c,d>>))
    [] k = "ao21" -> Bp8Or(<<Bp8And(<<a,b>>), c>>) [] k = "aoi21" -> Bp8Not(Bp8Or(<<Bp8And(<<a,b>>), c>>))
    [] k = "oa21" -> Bp8And(<<Bp8Or(<<a,b>>), c>>) [] k = "oai21" -> Bp8Not(Bp8And(<<Bp8Or(<<a,b>>), c>>))
    [] k = "ao22" -> Bp8Or(<<Bp8And(<<a,b>>), Bp8And(<<c,d>>)>>) [] k = "aoi22" -> Bp8Not(Bp8Or(<<Bp8And(<<a,b>>), Bp8And(<<c,d>>)>>))
    [] k = "oa22" -> Bp8And(<<Bp8Or(<<a,b>>), Bp8Or(<<c,d>>)>>) [] k = "oai22" -> Bp8Not(Bp8And(<<Bp8Or(<<a,b>>), Bp8Or(<<c,d>>)>>))
    [] k = "ao211" -> Bp8Or(<<Bp8And(<<a,b>>), c, d>>) [] k = "aoi211" -> Bp8Not(Bp8Or(<<Bp8And(<<a,b>>), c, d>>))
    [] k = "oa211" -> Bp8And(<<Bp8Or(<<a,b>>), c, d>>) [] k = "oai211" -> Bp8Not(Bp8And(<<Bp8Or(<<a,b>>), c, d>>))
    [] k = "mux21" -> Bp8Or(<<Bp8And(<<a, Bp8Not(c)>>), Bp8And(<<b, c>>)>>)
Bp4Prim(k, a, b, c, d) ==
  CASE k = "buf1" -> a [] k = "inv1" -> Bp4Not(a)
    [] k = "and2" -> Bp4And(<<a,b>>) [] k = "and3" -> Bp4And(<<a,b,c>>) [] k = "and4" -> Bp4And(<<a,b,c,d>>)
    [] k = "nand2" -> Bp4Not(Bp4And(<<a,b>>)) [] k = "nand3" -> Bp4Not(Bp4And(<<a,b,c>>)) [] k = "nand4" -> Bp4Not(Bp4And(<<a,b,c,d>>))
    [] k = "or2" -> Bp4Or(<<a,b>>) [] k = "or3" -> Bp4Or(<<a,b,c>>) [] k = "or4" -> Bp4Or(<<a,b,c,d>>)
    [] k = "nor2" -> Bp4Not(Bp4Or(<<a,b>>)) [] k = "nor3" -> Bp4Not(Bp4Or(<<a,b,c>>)) [] k = "nor4" -> Bp4Not(Bp4Or(<<a,b,c,d>>))
    [] k = "xor2" -> Bp4Xor(<<a,b>>) [] k = "xor3" -> Bp4Xor(<<a,b,c>>) [] k = "xor4" -> Bp4Xor(<<a,b,c,d>>)
    [] k = "xnor2" -> Bp4Not(Bp4Xor(<<a,b>>)) [] k = "xnor3" -> Bp4Not(Bp4Xor(<<a,b,c>>)) [] k = "xnor4" -> Bp4Not(Bp4Xor(<<a,b,c,d>>))
    [] k = "ao21" -> Bp4Or(<<Bp4And(<<a,b>>), c>>) [] k = "aoi21" -> Bp4Not(Bp4Or(<<Bp4And(<<a,b>>), c>>))
    [] k = "oa21" -> Bp4And(<<Bp4Or(<<a,b>>), c>>) [] k = "oai21" -> Bp4Not(Bp4And(<<Bp4Or(<<a,b>>), c>>))
    [] k = "ao22" -> Bp4Or(<<Bp4And(<<a,b>>), Bp4And(<<c,d>>)>>) [] k = "aoi22" -> Bp4Not(Bp4Or(<<Bp4And(<<a,b>>), Bp4And(<<c,d>>)>>))
    [] k = "oa22" -> Bp4And(<<Bp4Or(<<a,b>>), Bp4Or(<<c,d>>)>>) [] k = "oai22" -> Bp4Not(Bp4And(<<Bp4Or(<<a,b>>), Bp4Or(<<c,d>>)>>))
    [] k = "ao211" -> Bp4Or(<<Bp4And(<<a,b>>), c, d>>) [] k = "aoi211" -> Bp4Not(Bp4Or(<<Bp4And(<<a,b>>), c, d>>))
    [] k = "oa211" -> Bp4And(<<Bp4Or(<<a,b>>), c, d>>) [] k = "oai211" -> Bp4Not(Bp4And(<<Bp4Or(<<a,b>>), c, d>>))
    [] k = "mux21" -> Bp4Or(<<Bp4And(<<a, Bp4Not(c)>>), Bp4And(<<b, c>>)>>)

\* 16-bit look-up constant: bit (i0 + 2 i1 + 4 i2 + 8 i3) = function value
RECURSIVE LutSum(_, _)
LutSum(k, n) == IF n > 15 THEN 0
                ELSE Prim2(k, n % 2, (n \div 2) % 2, (n \div 4) % 2, (n \div 8) % 2) * (2 ^ n) + LutSum(k, n + 1)
LutOf(k) == LutSum(k, 0)

\* ---- node kind -> family (documented kind names, case-insensitive spellings in use) ----
Fam(kind) ==
  CASE kind \in {"and","AND","and2","and3","and4","AND2","AND3","AND4"} -> "and"
    [] kind \in {"nand","NAND","nand2","nand3","nand4","NAND2","NAND3","NAND4"} -> "nand"
    [] kind \in {"or","OR","or2","or3","or4","OR2","OR3","OR4"} -> "or"
    [] kind \in {"nor","NOR","nor2","nor3","nor4","NOR2","NOR3","NOR4"} -> "nor"
    [] kind \in {"xor","XOR","xor2","xor3","xor4","XOR2","XOR3","XOR4"} -> "xor"
    [] kind \in {"xnor","XNOR","xnor2","xnor3","xnor4","XNOR2","XNOR3","XNOR4"} -> "xnor"
    [] kind \in {"buf","BUF","buf1","BUF1","nbuf","NBUF","delln","DELLN","__const0__","tiel","TIEL"} -> "buf1"
    [] kind \in {"not","NOT","not1","NOT1","inv","INV","inv1","INV1","ibuf","IBUF","__const1__","tieh","TIEH"} -> "inv1"
    [] kind \in {"isolor","ISOLOR"} -> "or2"
    [] kind \in {"ao21","AO21"} -> "ao21" [] kind \in {"aoi21","AOI21"} -> "aoi21"
    [] kind \in {"oa21","OA21"} -> "oa21" [] kind \in {"oai21","OAI21"} -> "oai21"
    [] kind \in {"ao22","AO22"} -> "ao22" [] kind \in {"aoi22","AOI22"} -> "aoi22"
    [] kind \in {"oa22","OA22"} -> "oa22" [] kind \in {"oai22","OAI22"} -> "oai22"
    [] kind \in {"ao211","AO211"} -> "ao211" [] kind \in {"aoi211","AOI211"} -> "aoi211"
    [] kind \in {"oa211","OA211"} -> "oa211" [] kind \in {"oai211","OAI211"} -> "oai211"
    [] kind \in {"mux21","MUX21"} -> "mux21"
    [] OTHER -> "?"
Variadic == {"and", "nand", "or", "nor", "xor", "xnor"}
\* highest connected pin (1-based) among the first four input pins; 0 if none
HiPin(ins) == LET c == {j \in 1..4 : j <= Len(ins) /\ ins[j] >= 0} IN
              IF c = {} THEN 0 ELSE CHOOSE j \in c : \A i \in c : i <= j
Suffix(n) == IF n <= 2 THEN "2" ELSE IF n = 3 THEN "3" ELSE "4"
PrimOf(kind, ins) == LET f == Fam(kind) IN IF f \in Variadic THEN f \o Suffix(HiPin(ins)) ELSE f
=============================================================================
