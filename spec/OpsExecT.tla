------------------------------ MODULE OpsExecT ------------------------------
(***************************************************************************)
(* Concrete model (layer C) of 2-valued propagation over the operation     *)
(* list SimOps publishes: one step per operation, `mem[out] := LUT[operands]`*)
(* over slots (lines, constant-0 slot, scratch, assigned-value slots),     *)
(* exactly what _prop_cpu / the callback loop / the GPU kernels compute    *)
(* per lane.  Two uses:                                                    *)
(*  Conform (DRIFT): after the last operation the model's value of every   *)
(*     line equals the value found in the real signal memory c;            *)
(*  ByOpsIsByNetlist (M on published data): executing the PUBLISHED        *)
(*     operation list gives every line the value Netlist.Eval gives it -   *)
(*     the operation list is a correct compilation of the netlist.         *)
(* Record: [st, lanes, stim, ops << <<lut, z, a, b, c, d>> >>, cvals[x][p]] *)
(* One state per (lane, number of executed operations).                    *)
(***************************************************************************)
EXTENDS Netlist, TLC, Json, IOUtils
Recs == JsonDeserialize(IOEnv.TRACE_FILE)
VARIABLES tid, p, k, mem
vars == <<tid, p, k, mem>>
R == Recs[tid]
St == R.st
NL == NLinesOf(St)
NS == Len(SNodes(St))
ZeroSlot == NL
PpiOff == NL + 3
NSlots == NL + 3 + 2 * NS
Bit(n, i) == (n \div (2 ^ i)) % 2
InitMem(r, lane) == [s \in 0..(Len(r.st.lines) + 2 + 2 * Len(r.stim)) |->
                       IF s >= Len(r.st.lines) + 3 /\ s < Len(r.st.lines) + 3 + Len(r.stim) THEN r.stim[s - Len(r.st.lines) - 3 + 1][lane] ELSE 0]
Init == /\ tid \in 1..Len(Recs) /\ p = 1 /\ k = 0 /\ mem = InitMem(Recs[tid], 1)
ExecOp == /\ k < Len(R.ops)
          /\ LET op == R.ops[k + 1]
                 idx == mem[op[3]] + 2 * mem[op[4]] + 4 * mem[op[5]] + 8 * mem[op[6]]
             IN mem' = [mem EXCEPT ![op[2]] = Bit(op[1], idx)]
          /\ k' = k + 1 /\ UNCHANGED <<tid, p>>
NextLane == /\ k = Len(R.ops) /\ p < R.lanes
            /\ p' = p + 1 /\ k' = 0 /\ mem' = InitMem(R, p + 1) /\ UNCHANGED tid
Next == ExecOp \/ NextLane
Spec == Init /\ [][Next]_vars
Done == k = Len(R.ops)
Drift(c) == PrintT(<<"DRIFT", "C01", tid, p, c>>) /\ FALSE
Conform == (Done => \A x \in 0..(NL - 1) : mem[x] = R.cvals[x + 1][p]) \/ Drift("Conform")
ByOpsIsByNetlist == (Done => LET v == Eval(St, 2, [i \in 1..NS |-> R.stim[i][p]]) IN \A x \in 0..(NL - 1) : mem[x] = v[x + 1])
                    \/ (PrintT(<<"FAIL", "C01", tid, p, "ByOpsIsByNetlist">>) /\ FALSE)
=============================================================================
