SPECIFICATION Spec
INVARIANT Sane
INVARIANT NoException
INVARIANT CapturedIsEval
INVARIANT DrivenPortsAreSignals
INVARIANT PaddingIndependent
INVARIANT CycleIsNextState
INVARIANT XSound
INVARIANT Proj8To2
CHECK_DEADLOCK FALSE
