SPECIFICATION Spec
INVARIANT Agrees
CHECK_DEADLOCK FALSE
