------------------------------- MODULE OptsT -------------------------------
(***************************************************************************)
(* Verdict trace specification (layer V) for C06: port-level results of    *)
(* the REAL simulators must be bit-identical across performance options,   *)
(* code paths, lane positions, batch sizes, restricted propagation and     *)
(* delay-dataset selection modes.  Observations are digests of the raw     *)
(* bytes of s[3..7], s[10] (LogicSim: s[1]) per lane, and of the signal    *)
(* memory c where the layouts coincide.                                    *)
(* Record: [ref : lane digests of the reference run, refc : digest of c,   *)
(*  runs : << [name, map : for each lane of the run the reference lane it  *)
(*            must equal (0 = not compared), lanes : lane digests,         *)
(*            ccmp : compare c, c : digest of c,                           *)
(*            keep : <<first untouched lane, pre, post>> column digests of  *)
(*                   c before / after a propagation restricted to k lanes, *)
(*            raised] >>]                                                  *)
(***************************************************************************)
EXTENDS Integers, Sequences, TLC, Json, IOUtils
Recs == JsonDeserialize(IOEnv.TRACE_FILE)
VARIABLES tid, k
vars == <<tid, k>>
R == Recs[tid]
Init == tid \in 1..Len(Recs) /\ k = 1
Next == k < Len(R.runs) /\ k' = k + 1 /\ UNCHANGED tid
Spec == Init /\ [][Next]_vars
Fail(c) == PrintT(<<"FAIL", "C06", tid, k, c>>) /\ FALSE
Run == R.runs[k]
NoException == (~R.raised /\ ~Run.raised) \/ Fail("NoException")
Good == ~R.raised /\ ~Run.raised
SameResults == (Good => \A p \in 1..Len(Run.lanes) : Run.map[p] > 0 => Run.lanes[p] = R.ref[Run.map[p]]) \/ Fail("SameResults")
SameMemory == (Good /\ Run.ccmp => Run.c = R.refc) \/ Fail("SameMemory")
UntouchedBeyondK == (Good /\ Len(Run.keep) = 3 => \A p \in Run.keep[1]..Len(Run.keep[2]) : Run.keep[2][p] = Run.keep[3][p]) \/ Fail("UntouchedBeyondK")
=============================================================================
