CONSTANTS
  NIN = 4
  LUTS = {0}
  TGRID = 0
  MAXTR = 0
  DVALS = {0}
  CAPS = {4}
  POLDEP = TRUE
SPECIFICATION TSpec
INVARIANT Conform
INVARIANT TagOvf
CHECK_DEADLOCK FALSE
