SPECIFICATION Spec
INVARIANT NoException
INVARIANT ChainIsFold
CHECK_DEADLOCK FALSE
