------------------------------ MODULE KernelT ------------------------------
(***************************************************************************)
(* Verdict trace specification (layer V), kernel level: outputs of the     *)
(* REAL wave_eval_cpu for one operation and one lane.                      *)
(* Record: [lut, prim (name of the primitive with this table), win : input *)
(*          images (1..4), dl : dl[i][ip][op], cap, z : produced image,    *)
(*          nr, nf : returned switching counts, poldep, raised]            *)
(***************************************************************************)
EXTENDS Prims, WaveProps, TLC, Json, IOUtils
Recs == JsonDeserialize(IOEnv.TRACE_FILE)
VARIABLE tid
Init == tid \in 1..Len(Recs)
Next == UNCHANGED tid
Spec == Init /\ [][Next]_tid
R == Recs[tid]
Fail(pid, c) == PrintT(<<"FAIL", pid, tid, 0, c>>) /\ FALSE
Ok == ~R.raised
NIn == Len(R.win)
Ins == 1..NIn
Bit(n, k) == (n \div (2 ^ k)) % 2
LutAt(f) == Bit(R.lut, (IF NIn >= 1 THEN f[1] ELSE 0) + (IF NIn >= 2 THEN 2 * f[2] ELSE 0) + (IF NIn >= 3 THEN 4 * f[3] ELSE 0) + (IF NIn >= 4 THEN 8 * f[4] ELSE 0))
NoException == Ok \/ Fail("C03", "NoException")
WithinCap == (Ok => WellFormed(R.z) /\ Len(R.z) <= R.cap) \/ Fail("C03", "WithinCap")
Good == Ok /\ WellFormed(R.z)
\* C03: starts at the function of the initial values, ends (by parity) at the function of the final values - also after overflow
Functional == (Good => /\ InitVal(R.z) = LutAt([i \in Ins |-> InitVal(R.win[i])])
                       /\ FinalVal(R.z) = LutAt([i \in Ins |-> FinalVal(R.win[i])])) \/ Fail("C03", "Functional")
\* C04: static-timing window of this one gate
AllD(i) == {R.dl[i][a][b] : a \in 1..2, b \in 1..2}
ActIn == {i \in Ins : FiniteTimes(R.win[i]) # {}}
Window == (Good => \A t \in FiniteTimes(R.z) :
              /\ ActIn # {}
              /\ MinOf({Earliest(R.win[i]) + MinOf(AllD(i)) : i \in ActIn}) <= t
              /\ t <= MaxOf({Latest(R.win[i]) + MaxOf(AllD(i)) : i \in ActIn})) \/ Fail("C04", "Window")
InputsMonotone == \A i \in Ins : StrictlyIncreasing(R.win[i])
Monotone == (Good /\ ~R.poldep /\ InputsMonotone => StrictlyIncreasing(R.z)) \/ Fail("C04", "MonotoneIfPolIndep")
EdgeIsInputPlusDelay == (Good => \A t \in FiniteTimes(R.z) : \E i \in Ins : \E u \in FiniteTimes(R.win[i]) : \E d \in AllD(i) : t = u + d)
                        \/ Fail("C04", "EdgeIsInputPlusDelay")
\* C04: rigid motion at the kernel: the same configuration with all input times shifted by R.sd (resp. all times and
\* delays scaled by R.sf / R.sden, R.sden a power of two, the result reported in units of 1/R.sden) was run through the
\* real kernel as well (R.zs, R.zc; empty when not recorded)
ShiftEquivariant == (Good /\ Len(R.zs) > 0 => R.zs = Shift(R.z, R.sd)) \/ Fail("C04", "ShiftEquivariant")
ScaleEquivariant == (Good /\ Len(R.zc) > 0 => R.zc = Scale(R.z, R.sf)) \/ Fail("C04", "ScaleEquivariant")
\* C05: the 8-valued abstraction of the output is predicted by the 8-valued operator applied to the abstractions of the inputs
Alpha(w) == Mk(InitVal(w), FinalVal(w), IF FiniteTimes(w) = {} THEN 0 ELSE 1)
A8(i) == IF i <= NIn THEN Alpha(R.win[i]) ELSE ZERO
Abstracts8 == (Good /\ R.prim \in PRIMS =>
                 LET r == Prim8(R.prim, A8(1), A8(2), A8(3), A8(4)) IN
                 /\ Known(r) /\ InitVal(R.z) = Ini(r) /\ FinalVal(R.z) = Fin(r)
                 /\ (r \in {ZERO, ONE} => FiniteTimes(R.z) = {})) \/ Fail("C05", "Abstracts8")
\* C13: the overflow marker is generated or PROPAGATED: an operand whose waveform is marked incomplete marks the result
OvlPropagates == (Good /\ (\E i \in Ins : Overflowed(R.win[i])) => Overflowed(R.z)) \/ Fail("C13", "OvlPropagates")
\* C13: returned switching counts = transitions of the produced waveform; overflow marker iff ...(marker is an observation)
CountsMatch == (Good => R.nr = NRise(R.z) /\ R.nf = NFall(R.z)) \/ Fail("C13", "CountsMatch")
=============================================================================
