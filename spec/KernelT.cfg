SPECIFICATION Spec
INVARIANT NoException
INVARIANT WithinCap
INVARIANT Functional
INVARIANT Window
INVARIANT Monotone
INVARIANT EdgeIsInputPlusDelay
INVARIANT ShiftEquivariant
INVARIANT ScaleEquivariant
INVARIANT Abstracts8
INVARIANT CountsMatch
INVARIANT OvlPropagates
CHECK_DEADLOCK FALSE
