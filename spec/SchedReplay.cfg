SPECIFICATION Spec
INVARIANT NoException
INVARIANT SameMemory
INVARIANT SameResults
INVARIANT SameActivity
CHECK_DEADLOCK FALSE
