\* behaviour generation (R) with Circuit.substitute: every distinct (canonical state, last edit) with a history reaching it
CONSTANTS
  NAMES = {"a", "b"}
  CELLKINDS = {"and"}
  MAXNODES = 3
  MAXLINES = 3
  MAXPIN = 1
  MAXDEPTH = 4
  SUBIMPLS = {1, 3, 4, 5, 6, 7}
SPECIFICATION Spec
INVARIANT EmitHist
VIEW View
CONSTRAINT DepthBound
CHECK_DEADLOCK FALSE
