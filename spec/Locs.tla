-------------------------------- MODULE Locs --------------------------------
(***************************************************************************)
(* Verdict specification (layer V) for the name-lookup half of C17:        *)
(* io_locs / s_locs(prefix) return the positions of the ports / interface  *)
(* elements whose name starts with the prefix, as buses ordered from LSB   *)
(* to MSB by NUMERIC index, nested for multi-dimensional names, different  *)
(* signals ordered alphanumerically; a single match is a bare position,    *)
(* no match is "nothing".                                                  *)
(* Names are generated structurally: name = base ++ rendering(indices)     *)
(* (a[3], a_3, a_3_[1], a3 ...); the record carries for every position     *)
(* the structure (rank of the base in string order, indices) and whether   *)
(* the base starts with the prefix.                                        *)
(* Record: [names : << [m, b, ix] >> (m: base starts with prefix, b: rank  *)
(*          of the base string, ix: indices), got : returned value as      *)
(*          a token sequence (see Flat), raised]                           *)
(***************************************************************************)
EXTENDS Integers, Sequences, FiniteSets, TLC, Json, IOUtils
Recs == JsonDeserialize(IOEnv.TRACE_FILE)
VARIABLE tid
Init == tid \in 1..Len(Recs)
Next == UNCHANGED tid
Spec == Init /\ [][Next]_tid
R == Recs[tid]
Fail(c) == PrintT(<<"FAIL", "C17", tid, 0, c>>) /\ FALSE
\* matching entries as <<path, position>>, path = <<base rank>> \o indices
Entries == {<<(<<R.names[i].b>> \o R.names[i].ix), i - 1>> : i \in {j \in 1..Len(R.names) : R.names[j].m}}
SortedSeq(S) == LET RECURSIVE F(_) F(T) == IF T = {} THEN <<>> ELSE LET x == CHOOSE y \in T : \A z \in T : y <= z IN <<x>> \o F(T \ {x}) IN F(S)
\* The result is compared as a token sequence (total equality, whatever shape was returned):
\* -2 = "[", -3 = "]", -1 = None, n >= 0 a position.
RECURSIVE Flat(_, _), Cat(_, _, _, _)
\* entries E all share the first k path components
Flat(E, k) == IF \E e \in E : Len(e[1]) = k
              THEN <<(CHOOSE e \in E : Len(e[1]) = k)[2]>>       \* a leaf: the position
              ELSE <<-2>> \o Cat(E, k, SortedSeq({e[1][k + 1] : e \in E}), 1) \o <<-3>>
Cat(E, k, keys, i) == IF i > Len(keys) THEN <<>> ELSE Flat({e \in E : e[1][k + 1] = keys[i]}, k + 1) \o Cat(E, k, keys, i + 1)
\* "while the result is a list with a single element, take that element" (applied at the top only)
RECURSIVE Top(_, _)
Top(E, k) == IF \E e \in E : Len(e[1]) = k THEN Flat(E, k)
             ELSE IF Cardinality({e[1][k + 1] : e \in E}) = 1 THEN Top(E, k + 1) ELSE Flat(E, k)
Expected == IF Entries = {} THEN <<-1>> ELSE Top(Entries, 0)
NoException == ~R.raised \/ Fail("NoException")
LocsAreBuses == R.raised \/ R.got = Expected \/ Fail("LocsAreBuses")
=============================================================================
