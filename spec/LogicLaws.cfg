SPECIFICATION Spec
INVARIANT PlaneIsCode8
INVARIANT PlaneIsCode4
INVARIANT Restrict
INVARIANT XSound
INVARIANT Proj
INVARIANT Closed4
INVARIANT DeMorgan
INVARIANT Kary
INVARIANT LutSane
CHECK_DEADLOCK FALSE
