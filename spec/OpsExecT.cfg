SPECIFICATION Spec
INVARIANT Conform
INVARIANT ByOpsIsByNetlist
CHECK_DEADLOCK FALSE
