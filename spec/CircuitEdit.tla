---------------------------- MODULE CircuitEdit ----------------------------
(***************************************************************************)
(* Concrete model (layer C) of the editing code of kyupy.circuit           *)
(* (GrowingList, IndexList, Node, Line, Circuit.eliminate_1to1_forks,      *)
(* substitute, remove_dangling_nodes, copy, pickle).  The whole circuit is one record S; pure operators       *)
(* mirror the methods literally (swap-with-last with explicit index        *)
(* fields, GrowingList growth, free_index, fork squeeze) and actions       *)
(* compose them the way the code composes method calls.  Object identity   *)
(* is modelled by ids (nid/lid counters); the VIEW replaces ids by         *)
(* positions.  Design run (M): the C09 invariants hold in every reachable  *)
(* state within the bounds.  Generation (R): every distinct (canonical     *)
(* state, last edit) is printed with an edit history reaching it.          *)
(***************************************************************************)
EXTENDS Integers, Sequences, FiniteSets, TLC, SequencesExt, CircuitImpls
CONSTANTS NAMES, CELLKINDS, MAXNODES, MAXLINES, MAXPIN, MAXDEPTH,
          SUBIMPLS      \* positions in IMPLS (CircuitImpls.tla) that the Subst action may use
FORK == "__fork__"
VARIABLE S        \* the whole circuit as one record (actions are compositions of pure operators, like the code composes method calls)
VARIABLE last     \* last edit as an abstract operation (positions, not ids)
VARIABLE hist     \* sequence of all edits so far (not part of the VIEW)
vars == <<S, last, hist>>

\* forder: names of the forks in dictionary (insertion) order - eliminate_1to1_forks iterates in that order
Empty == [nodes |-> <<>>, lines |-> <<>>, nd |-> <<>>, ln |-> <<>>, cells |-> <<>>, forks |-> <<>>, forder |-> <<>>,
          io |-> <<>>, nid |-> 1, lid |-> 1]

Put(f, k, v) == [x \in DOMAIN f \cup {k} |-> IF x = k THEN v ELSE f[x]]
Del(f, k) == [x \in DOMAIN f \ {k} |-> f[x]]
\* GrowingList.__setitem__ (0-based index i)
GrowSet(s, i, v) == IF i + 1 <= Len(s) THEN [s EXCEPT ![i + 1] = v]
                    ELSE s \o [k \in 1..(i - Len(s)) |-> 0] \o <<v>>
\* GrowingList.free_index (0-based)
FreeIndex(s) == IF \E k \in 1..Len(s) : s[k] = 0
                THEN (CHOOSE k \in 1..Len(s) : s[k] = 0 /\ \A j \in 1..(k-1) : s[j] # 0) - 1
                ELSE Len(s)
IsFree(s, i) == IF i + 1 > Len(s) THEN TRUE ELSE s[i + 1] = 0
DelAt(s, i) == SubSeq(s, 1, i) \o SubSeq(s, i + 2, Len(s))     \* 0-based del s[i]

\* IndexList.__delitem__(index) on a list of object ids whose index fields live in table tbl (field idx)
IndexDel(list, tbl, i) ==
    IF i = Len(list) - 1 THEN [list |-> SubSeq(list, 1, Len(list) - 1), tbl |-> tbl]
    ELSE LET repl == list[Len(list)] IN
         [list |-> [SubSeq(list, 1, Len(list) - 1) EXCEPT ![i + 1] = repl],
          tbl |-> [tbl EXCEPT ![repl].idx = i]]

\* ---- Node.__init__ ----
OpNewNode(s, name, kind) ==
    LET id == s.nid IN
    [s EXCEPT !.nodes = Append(s.nodes, id),
              !.nd = Put(s.nd, id, [name |-> name, kind |-> kind, idx |-> Len(s.nodes), ins |-> <<>>, outs |-> <<>>]),
              !.cells = IF kind = FORK THEN s.cells ELSE Put(s.cells, name, id),
              !.forks = IF kind = FORK THEN Put(s.forks, name, id) ELSE s.forks,
              !.forder = IF kind = FORK THEN Append(s.forder, name) ELSE s.forder,
              !.nid = id + 1]
\* ---- Line.__init__ with resolved pins ----
OpNewLine(s, d, dpin, r, rpin) ==
    LET id == s.lid
        nd1 == [s.nd EXCEPT ![d].outs = GrowSet(@, dpin, id)]
        nd2 == [nd1 EXCEPT ![r].ins = GrowSet(@, rpin, id)]
    IN [s EXCEPT !.lines = Append(s.lines, id),
                 !.ln = Put(s.ln, id, [idx |-> Len(s.lines), drv |-> d, dpin |-> dpin, rdr |-> r, rpin |-> rpin]),
                 !.nd = nd2, !.lid = id + 1]
\* ---- Line.remove ----
OpRemoveLine(s, l) ==
    LET L == s.ln[l]
        d == L.drv
        dlive == d \in DOMAIN s.nd
        outs1 == IF dlive THEN [s.nd[d].outs EXCEPT ![L.dpin + 1] = 0] ELSE <<>>
        isfork == dlive /\ s.nd[d].kind = FORK
        outs2 == IF isfork THEN DelAt(outs1, L.dpin) ELSE outs1
        nd1 == IF d \in DOMAIN s.nd THEN [s.nd EXCEPT ![d].outs = outs2] ELSE s.nd     \* (a removed node object is not in the table)
        \* squeeze: renumber driver_pin of all remaining lines on the fork
        ln1 == IF isfork THEN [x \in DOMAIN s.ln |->
                     IF \E k \in 1..Len(outs2) : outs2[k] = x
                     THEN [s.ln[x] EXCEPT !.dpin = (CHOOSE k \in 1..Len(outs2) : outs2[k] = x) - 1]
                     ELSE s.ln[x]]
               ELSE s.ln
        nd2 == IF L.rdr \in DOMAIN nd1 THEN [nd1 EXCEPT ![L.rdr].ins = [@ EXCEPT ![L.rpin + 1] = 0]] ELSE nd1
        r == IndexDel(s.lines, ln1, L.idx)
    IN [s EXCEPT !.nd = nd2, !.lines = r.list, !.ln = Del(r.tbl, l)]
\* ---- Node.remove ----
OpRemoveNode(s, n) ==
    LET r == IndexDel(s.nodes, s.nd, s.nd[n].idx) IN
    [s EXCEPT !.nodes = r.list, !.nd = Del(r.tbl, n),
              !.cells = IF s.nd[n].kind = FORK THEN s.cells ELSE Del(s.cells, s.nd[n].name),
              !.forks = IF s.nd[n].kind = FORK THEN Del(s.forks, s.nd[n].name) ELSE s.forks,
              !.forder = IF s.nd[n].kind = FORK THEN SelectSeq(s.forder, LAMBDA x : x # s.nd[n].name) ELSE s.forder]

LiveNodes == DOMAIN S.nd
LiveLines == DOMAIN S.ln
IoSet == {S.io[k] : k \in 1..Len(S.io)}
Attached(n) == (\E k \in 1..Len(S.nd[n].ins) : S.nd[n].ins[k] # 0) \/ (\E k \in 1..Len(S.nd[n].outs) : S.nd[n].outs[k] # 0)

Init == S = Empty /\ last = <<"init">> /\ hist = <<>>
Did(op) == last' = op /\ hist' = Append(hist, op)
NewNode(name, kind) ==
    /\ Len(S.nodes) < MAXNODES
    /\ IF kind = FORK THEN name \notin DOMAIN S.forks ELSE name \notin DOMAIN S.cells
    /\ S' = OpNewNode(S, name, kind) /\ Did(<<"NewNode", name, kind>>)
\* dspec/rspec: -1 = implicit, else explicit 0-based pin (must be free; on a fork driver only the next position)
NewLine(d, dspec, r, rspec) ==
    /\ Len(S.lines) < MAXLINES
    /\ LET dpin == IF dspec = -1 THEN FreeIndex(S.nd[d].outs) ELSE dspec
           rpin == IF rspec = -1 THEN FreeIndex(S.nd[r].ins) ELSE rspec
       IN /\ dpin <= MAXPIN /\ rpin <= MAXPIN
          /\ IsFree(S.nd[d].outs, dpin) /\ IsFree(S.nd[r].ins, rpin)
          /\ (S.nd[d].kind = FORK /\ dspec # -1) => dspec = Len(S.nd[d].outs)
          /\ (S.nd[r].kind = FORK) => (rpin = 0 /\ \A k \in 1..Len(S.nd[r].ins) : S.nd[r].ins[k] = 0)   \* a fork has one driver, on pin 0
          /\ S' = OpNewLine(S, d, dpin, r, rpin)
          /\ Did(<<"NewLine", S.nd[d].idx, dspec, S.nd[r].idx, rspec>>)
RemoveLine(l) == S' = OpRemoveLine(S, l) /\ Did(<<"RemoveLine", S.ln[l].idx>>)
\* remove() called once more on the handle of a line that was removed before: nothing is left to detach, the circuit
\* does not change (whatever line has moved into the old index meanwhile)
RemoveAgain == S' = S /\ Did(<<"RemoveAgain">>)
RemoveNode(n) == /\ ~Attached(n) /\ n \notin IoSet
                 /\ S' = OpRemoveNode(S, n) /\ Did(<<"RemoveNode", S.nd[n].idx>>)
AppendIo(n) == /\ n \notin IoSet /\ S' = [S EXCEPT !.io = Append(@, n)] /\ Did(<<"AppendIo", S.nd[n].idx>>)

\* ---- Circuit.eliminate_1to1_forks: one iteration for fork named nm (snapshot order = forder at call time) ----
ElimOne(s, nm) ==
    IF nm \notin DOMAIN s.forks THEN s
    ELSE LET n == s.forks[nm] IN
         IF n \in {s.io[k] : k \in 1..Len(s.io)} \/ Len(s.nd[n].outs) # 1 THEN s
         ELSE LET inl == s.nd[n].ins[1]
                  outl == s.nd[n].outs[1]
                  rdr == s.ln[outl].rdr
                  rpin == s.ln[outl].rpin
                  s1 == OpRemoveNode(s, n)
                  \* out_line.remove(): the driver object n is no longer in the circuit; only reader side and lines list matter
                  nd2 == [s1.nd EXCEPT ![rdr].ins = [@ EXCEPT ![rpin + 1] = 0]]
                  r == IndexDel(s1.lines, s1.ln, s1.ln[outl].idx)
                  ln3 == [Del(r.tbl, outl) EXCEPT ![inl].rdr = rdr, ![inl].rpin = rpin]
                  nd3 == [nd2 EXCEPT ![rdr].ins = GrowSet(@, rpin, inl)]
              IN [s1 EXCEPT !.nd = nd3, !.lines = r.list, !.ln = ln3]
\* well-formed use: every candidate fork has its input connected
\* and no fork feeds itself through forks only (a fork-only loop is not a signal)
ForkIds == {S.forks[nm] : nm \in DOMAIN S.forks}
ForkSucc(n) == {S.ln[l].rdr : l \in {x \in LiveLines : S.ln[x].drv = n}} \cap ForkIds
RECURSIVE ForkReach(_, _)
ForkReach(T, k) == IF k = 0 THEN T ELSE ForkReach(T \cup UNION {ForkSucc(n) : n \in T}, k - 1)
ForkAcyclic == \A n \in ForkIds : n \notin ForkReach(ForkSucc(n), Cardinality(ForkIds))
ElimReady == /\ ForkAcyclic
             /\ \A nm \in DOMAIN S.forks : LET n == S.forks[nm] IN
                (n \notin IoSet /\ Len(S.nd[n].outs) = 1) => (Len(S.nd[n].ins) >= 1 /\ S.nd[n].ins[1] # 0)
Eliminate == /\ ElimReady
             /\ S' = FoldLeft(ElimOne, S, S.forder)
             /\ Did(<<"Elim">>)
\* ---- Circuit.remove_dangling_nodes(root) ----
SeqKind(k) == k \in {"DFF", "dff", "LATCH", "latch", "DFFX1", "SDFF", "dffr"}      \* 'dff' / 'latch' in kind.lower() for the kinds in use
RECURSIVE Dangle(_, _)
Dangle(s, n) ==
    IF n \notin DOMAIN s.nd THEN s                      \* visited through two lines: already removed
    ELSE LET N == s.nd[n] IN
         IF (\E k \in 1..Len(N.outs) : N.outs[k] # 0) \/ (\E k \in 1..Len(s.io) : s.io[k] = n) \/ SeqKind(N.kind) THEN s
         ELSE LET lines == SelectSeq(N.ins, LAMBDA x : x # 0)
                  drivers == [k \in 1..Len(lines) |-> s.ln[lines[k]].drv]
                  s1 == OpRemoveNode(s, n)
                  s2 == FoldLeft(LAMBDA acc, l : OpRemoveLine(acc, l), s1, lines)
              IN FoldLeft(LAMBDA acc, d : Dangle(acc, d), s2, drivers)
\* ---- Circuit.substitute(node, impl): I is a record of CircuitImpls.IMPLS (0-based indices, -1 = open pin) ----
INd(I, i) == I.nodes[i + 1]
ILn(I, j) == I.lines[j + 1]                               \* <<driver, driver pin, reader, reader pin>>
IsIo(I, i) == \E k \in 1..Len(I.io) : I.io[k] = i
InNodes(I) == SelectSeq(I.io, LAMBDA i : Len(INd(I, i).ins) = 0)
OutLines(I) == LET o == SelectSeq(I.io, LAMBDA i : Len(INd(I, i).ins) > 0) IN [k \in 1..Len(o) |-> INd(I, o[k]).ins[1]]
RECURSIVE UpToCell(_, _)
UpToCell(I, n) == IF INd(I, n).kind = FORK /\ ~IsIo(I, n) THEN UpToCell(I, ILn(I, INd(I, n).ins[1])[1]) ELSE n
Designated(I) == IF OutLines(I) = <<>> THEN -1 ELSE UpToCell(I, ILn(I, OutLines(I)[1])[1])
OpSubst(s, node, I) ==
    LET N == s.nd[node]
        inN == InNodes(I)
        outL == OutLines(I)
        des == Designated(I)
        nodeIn == N.ins \o [k \in 1..(Len(inN) - Len(N.ins)) |-> 0]
        nodeOut == N.outs \o [k \in 1..(Len(outL) - Len(N.outs)) |-> 0]
        \* the replaced node becomes the designated cell (keeps its index and name) or is removed
        s0 == IF des # -1 THEN [s EXCEPT !.nd[node].kind = INd(I, des).kind, !.nd[node].ins = <<>>, !.nd[node].outs = <<>>]
              ELSE OpRemoveNode(s, node)
        m0 == IF des # -1 THEN [x \in {des} |-> node] ELSE [x \in {} |-> 0]
        NewName(i) == N.name \o "~" \o INd(I, i).name
        AddNode(acc, i) ==
            LET nd == INd(I, i) IN
            IF ~IsIo(I, i) THEN (IF i # des THEN [s |-> OpNewNode(acc.s, NewName(i), nd.kind), m |-> Put(acc.m, i, acc.s.nid)] ELSE acc)
            ELSE IF (Len(nd.outs) > 0 /\ Len(nd.ins) > 0) \/ (Len(nd.ins) = 0 /\ Len(nd.outs) # 1)
                 THEN [s |-> OpNewNode(acc.s, NewName(i), FORK), m |-> Put(acc.m, i, acc.s.nid)]      \* a port that needs a fork
                 ELSE acc
        a1 == FoldLeft(AddNode, [s |-> s0, m |-> m0], [i \in 1..Len(I.nodes) |-> i - 1])
        m == a1.m
        AddLine(acc, j) == LET L == ILn(I, j) IN
            IF L[1] \in DOMAIN m /\ L[3] \in DOMAIN m THEN OpNewLine(acc, m[L[1]], L[2], m[L[3]], L[4]) ELSE acc
        s2 == FoldLeft(AddLine, a1.s, [j \in 1..Len(I.lines) |-> j - 1])
        ConnIn(acc, k) ==
            LET ll == nodeIn[k]
                inn == inN[k]
            IN IF ll = 0 THEN acc
               ELSE LET one == Len(INd(I, inn).outs) = 1
                        l == ILn(I, INd(I, inn).outs[1])
                        rdr == IF one THEN m[l[3]] ELSE m[inn]
                        rpin == IF one THEN l[4] ELSE 0
                    IN [acc EXCEPT !.ln[ll].rdr = rdr, !.ln[ll].rpin = rpin, !.nd[rdr].ins = GrowSet(@, rpin, ll)]
        s3 == FoldLeft(ConnIn, s2, [k \in 1..Len(inN) |-> k])
        ConnOut(acc, k) ==
            LET ll == nodeOut[k]
                L == ILn(I, outL[k])
            IN IF ll = 0 THEN (IF L[1] \in DOMAIN m THEN Dangle(acc, m[L[1]]) ELSE acc)
               ELSE LET via == Len(INd(I, L[3]).outs) > 0          \* the output is also read inside: connect to its fork
                        drv == IF via THEN m[L[3]] ELSE m[L[1]]
                        dpin == IF via THEN Len(INd(I, L[3]).outs) ELSE L[2]
                    IN [acc EXCEPT !.ln[ll].drv = drv, !.ln[ll].dpin = dpin, !.nd[drv].outs = GrowSet(@, dpin, ll)]
    IN FoldLeft(ConnOut, s3, [k \in 1..Len(outL) |-> k])
\* ---- Circuit.copy / pickle round trip: rebuild through the constructors with explicit pins ----
Rebuild(s) ==
    LET s1 == FoldLeft(LAMBDA acc, id : OpNewNode(acc, s.nd[id].name, s.nd[id].kind), [Empty EXCEPT !.nid = s.nid, !.lid = s.lid], s.nodes)
        ByPos(t, i) == t.nodes[i + 1]
        s2 == FoldLeft(LAMBDA acc, id : OpNewLine(acc, ByPos(acc, s.nd[s.ln[id].drv].idx), s.ln[id].dpin,
                                                       ByPos(acc, s.nd[s.ln[id].rdr].idx), s.ln[id].rpin), s1, s.lines)
    IN [s2 EXCEPT !.io = [k \in 1..Len(s.io) |-> ByPos(s2, s.nd[s.io[k]].idx)]]
Copy == S' = Rebuild(S) /\ Did(<<"Copy">>)
Pickle == S' = Rebuild(S) /\ Did(<<"Pickle">>)

\* well-formed use of substitute: a cell that is not a port, pin counts within the implementation's ports, no line from
\* the cell to itself, none of the names substitute() creates exists yet
SubstOK(n, I) == /\ S.nd[n].kind # FORK /\ n \notin IoSet
                 /\ Len(S.nd[n].ins) <= Len(InNodes(I)) /\ Len(S.nd[n].outs) <= Len(OutLines(I))
                 /\ \A k \in 1..Len(S.nd[n].outs) : S.nd[n].outs[k] # 0 => S.ln[S.nd[n].outs[k]].rdr # n
                 /\ \A i \in 1..Len(I.nodes) : LET nm == S.nd[n].name \o "~" \o I.nodes[i].name IN nm \notin DOMAIN S.cells /\ nm \notin DOMAIN S.forks
Subst(n, k) == /\ SubstOK(n, IMPLS[k])
               /\ S' = OpSubst(S, n, IMPLS[k]) /\ Did(<<"Subst", S.nd[n].idx, k - 1>>)
Next == \/ \E name \in NAMES, kind \in CELLKINDS \cup {FORK} : NewNode(name, kind)
        \/ \E d \in LiveNodes, r \in LiveNodes, dspec \in -1..MAXPIN, rspec \in -1..MAXPIN : NewLine(d, dspec, r, rspec)
        \/ \E l \in LiveLines : RemoveLine(l)
        \/ \E n \in LiveNodes : RemoveNode(n)
        \/ \E n \in LiveNodes : AppendIo(n)
        \/ Eliminate \/ Copy \/ Pickle
        \/ \E n \in LiveNodes, k \in SUBIMPLS : Subst(n, k)
Spec == Init /\ [][Next]_vars

\* ---------------- invariants (C09) ----------------
IndexIsPosition == /\ \A i \in 1..Len(S.nodes) : S.nd[S.nodes[i]].idx = i - 1
                   /\ \A i \in 1..Len(S.lines) : S.ln[S.lines[i]].idx = i - 1
                   /\ {S.nodes[i] : i \in 1..Len(S.nodes)} = LiveNodes /\ Len(S.nodes) = Cardinality(LiveNodes)
                   /\ {S.lines[i] : i \in 1..Len(S.lines)} = LiveLines /\ Len(S.lines) = Cardinality(LiveLines)
NameMaps == /\ \A nm \in DOMAIN S.cells : S.cells[nm] \in LiveNodes /\ S.nd[S.cells[nm]].name = nm /\ S.nd[S.cells[nm]].kind # FORK
            /\ \A nm \in DOMAIN S.forks : S.forks[nm] \in LiveNodes /\ S.nd[S.forks[nm]].name = nm /\ S.nd[S.forks[nm]].kind = FORK
            /\ \A n \in LiveNodes : IF S.nd[n].kind = FORK THEN S.nd[n].name \in DOMAIN S.forks /\ S.forks[S.nd[n].name] = n
                                    ELSE S.nd[n].name \in DOMAIN S.cells /\ S.cells[S.nd[n].name] = n
BackRefs == /\ \A l \in LiveLines : LET L == S.ln[l] IN
                 /\ L.drv \in LiveNodes /\ L.rdr \in LiveNodes
                 /\ L.dpin + 1 <= Len(S.nd[L.drv].outs) /\ S.nd[L.drv].outs[L.dpin + 1] = l
                 /\ L.rpin + 1 <= Len(S.nd[L.rdr].ins) /\ S.nd[L.rdr].ins[L.rpin + 1] = l
            /\ \A n \in LiveNodes :
                 /\ \A k \in 1..Len(S.nd[n].outs) : S.nd[n].outs[k] # 0 =>
                        S.nd[n].outs[k] \in LiveLines /\ S.ln[S.nd[n].outs[k]].drv = n /\ S.ln[S.nd[n].outs[k]].dpin = k - 1
                 /\ \A k \in 1..Len(S.nd[n].ins) : S.nd[n].ins[k] # 0 =>
                        S.nd[n].ins[k] \in LiveLines /\ S.ln[S.nd[n].ins[k]].rdr = n /\ S.ln[S.nd[n].ins[k]].rpin = k - 1
ForksGapFree == \A n \in LiveNodes : S.nd[n].kind = FORK => \A k \in 1..Len(S.nd[n].outs) : S.nd[n].outs[k] # 0
WF == IndexIsPosition /\ NameMaps /\ BackRefs /\ ForksGapFree
\* canonical view: object ids replaced by positions
Canon == [nodes |-> [i \in 1..Len(S.nodes) |-> LET N == S.nd[S.nodes[i]] IN
                       [name |-> N.name, kind |-> N.kind,
                        ins |-> [k \in 1..Len(N.ins) |-> IF N.ins[k] = 0 THEN -1 ELSE S.ln[N.ins[k]].idx],
                        outs |-> [k \in 1..Len(N.outs) |-> IF N.outs[k] = 0 THEN -1 ELSE S.ln[N.outs[k]].idx]]],
          lines |-> [i \in 1..Len(S.lines) |-> LET L == S.ln[S.lines[i]] IN <<S.nd[L.drv].idx, L.dpin, S.nd[L.rdr].idx, L.rpin>>],
          io |-> [k \in 1..Len(S.io) |-> S.nd[S.io[k]].idx]]
View == <<Canon, last>>
EmitHist == PrintT(<<"HIST", hist>>)
\* copy / pickle preserve the canonical structure (action property)
\* (modulo trailing unconnected pins, which a rebuilt pin list does not have)
RECURSIVE Trim(_)
Trim(q) == IF Len(q) > 0 /\ q[Len(q)] = -1 THEN Trim(SubSeq(q, 1, Len(q) - 1)) ELSE q
Norm(c) == [c EXCEPT !.nodes = [i \in 1..Len(c.nodes) |-> [c.nodes[i] EXCEPT !.ins = Trim(@), !.outs = Trim(@)]]]
CloneIdentity == [][(last'[1] \in {"Copy", "Pickle"}) => (Norm(Canon') = Norm(Canon))]_vars
DepthBound == TLCGet("level") <= MAXDEPTH
=============================================================================
