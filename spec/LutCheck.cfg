SPECIFICATION Spec
INVARIANT LutIsFunction
INVARIANT AllPublished
CHECK_DEADLOCK FALSE
