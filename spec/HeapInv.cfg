SPECIFICATION Spec
INVARIANT NoException
INVARIANT Tiling
INVARIANT FreeLive
INVARIANT Coalesced
INVARIANT HighWater
INVARIANT NoOverlapOnAlloc
CHECK_DEADLOCK FALSE
