-------------------------- MODULE CircuitEditTrace --------------------------
(***************************************************************************)
(* Conformance (layer C, DRIFT only): the concrete model CircuitEdit.tla   *)
(* is driven with the edits of a recorded history of the real Circuit;     *)
(* after every edit the canonical model state must equal the logged        *)
(* projection (nodes with pins, lines, ports).                             *)
(***************************************************************************)
EXTENDS CircuitEdit, Json, IOUtils
Traces == JsonDeserialize(IOEnv.TRACE_FILE)
VARIABLES tid, l
tvars == <<vars, tid, l>>
TInit == Init /\ tid \in 1..Len(Traces) /\ l = 0
Ev == Traces[tid][l + 1]
A == Ev.act
NodeAt(i) == S.nodes[i + 1]
LineAt(i) == S.lines[i + 1]
TStep == /\ l < Len(Traces[tid]) /\ ~Ev.raised
         /\ l' = l + 1 /\ tid' = tid
         /\ CASE A[1] = "NewNode" -> S' = OpNewNode(S, A[2], A[3]) /\ Did(<<"NewNode", A[2], A[3]>>)
              [] A[1] = "NewLine" -> LET d == NodeAt(A[2])  r == NodeAt(A[4])
                                         dpin == IF A[3] = -1 THEN FreeIndex(S.nd[d].outs) ELSE A[3]
                                         rpin == IF A[5] = -1 THEN FreeIndex(S.nd[r].ins) ELSE A[5]
                                     IN S' = OpNewLine(S, d, dpin, r, rpin) /\ Did(<<"NewLine", A[2], A[3], A[4], A[5]>>)
              [] A[1] = "RemoveLine" -> RemoveLine(LineAt(A[2]))
              [] A[1] = "RemoveAgain" -> RemoveAgain
              [] A[1] = "RemoveNode" -> S' = OpRemoveNode(S, NodeAt(A[2])) /\ Did(<<"RemoveNode", A[2]>>)
              [] A[1] = "AppendIo" -> S' = [S EXCEPT !.io = Append(@, NodeAt(A[2]))] /\ Did(<<"AppendIo", A[2]>>)
              [] A[1] = "Elim" -> S' = FoldLeft(ElimOne, S, S.forder) /\ Did(<<"Elim">>)
              [] A[1] = "Subst" -> S' = OpSubst(S, NodeAt(A[2]), IMPLS[A[3] + 1]) /\ Did(<<"Subst", A[2], A[3]>>)
              [] A[1] = "Copy" -> Copy
              [] A[1] = "Pickle" -> Pickle
TSpec == TInit /\ [][TStep]_tvars
Drift(c) == PrintT(<<"DRIFT", "C09", tid, l, c>>) /\ FALSE
Logged == Traces[tid][l].st
Conform == (l >= 1 =>
              /\ Len(Canon.nodes) = Len(Logged.nodes)
              /\ \A i \in 1..Len(Canon.nodes) : /\ Canon.nodes[i].name = Logged.nodes[i].name
                                                /\ Canon.nodes[i].kind = Logged.nodes[i].kind
                                                /\ Canon.nodes[i].ins = Logged.nodes[i].ins
                                                /\ Canon.nodes[i].outs = Logged.nodes[i].outs
              /\ Canon.lines = [i \in 1..Len(Logged.lines) |-> <<Logged.lines[i].drv, Logged.lines[i].dpin, Logged.lines[i].rdr, Logged.lines[i].rpin>>]
              /\ Canon.io = Logged.io) \/ Drift("Conform")
=============================================================================
