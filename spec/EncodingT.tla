------------------------------ MODULE EncodingT ------------------------------
(***************************************************************************)
(* Verdict specification (layer V) for C15: results of the REAL encoding   *)
(* functions of kyupy.logic / kyupy against the documented conventions.    *)
(* Arrays are sent flattened (row-major) with their shape; an optional     *)
(* batch is folded into one leading dimension A.                           *)
(*  kind "mvarray" : strs (k strings of P characters) -> values            *)
(*       signals on the second-to-last axis, patterns on the last:         *)
(*       result[s][j] = code of character s of string j; a single string   *)
(*       gives a 1-D vector                                                *)
(*  kind "mv_str"  : values (S x P) -> one string per pattern              *)
(*  kind "mv_to_bp": values (A x S x P) -> bytes (A x S x 3 x ceil(P/8)),  *)
(*       bit p%8 of byte p/8 in plane b = bit b of the value; padding 0    *)
(*  kind "bp_to_mv": bytes (A x S x 3 x B) -> values (A x S x 8B)          *)
(*  kind "unpack"  : integers (as two's complement bit sequences, computed  *)
(*       by integer arithmetic) -> bits, little end first                  *)
(*  kind "pack"    : bit rows of length n -> integers of width w (as bits): *)
(*       truncated to w, padded with 0 (unsigned) or the last bit (signed) *)
(*  kind "popcount": bytes -> number of one bits                           *)
(***************************************************************************)
EXTENDS Integers, Sequences, FiniteSets, TLC, Json, IOUtils, SequencesExt
Recs == JsonDeserialize(IOEnv.TRACE_FILE)
VARIABLE tid
Init == tid \in 1..Len(Recs)
Next == UNCHANGED tid
Spec == Init /\ [][Next]_tid
R == Recs[tid]
Fail(c) == PrintT(<<"FAIL", "C15", tid, 0, c>>) /\ FALSE
K(k) == R.kind = k
NoException == ~R.raised \/ Fail("NoException")
\* documented character table (value -> character) and aliases (character -> value)
CharOf(v) == <<"0", "X", "-", "1", "P", "R", "F", "N">>[v + 1]
Interp(ch) == CASE ch \in {"0", "L", "l"} -> 0 [] ch \in {"1", "H", "h"} -> 3 [] ch \in {"-", "Z", "z"} -> 2
                [] ch \in {"R", "r", "/"} -> 5 [] ch \in {"F", "f", "\\"} -> 6 [] ch \in {"P", "p", "^"} -> 4
                [] ch \in {"N", "n", "v"} -> 7 [] OTHER -> 1
Bit(n, k) == (n \div (2 ^ k)) % 2
CDiv(a, b) == (a + b - 1) \div b
\* ---- mvarray ----
NStr == Len(R.strs)
PLen == Len(R.strs[1])
MvArrayOK == (~K("mvarray") \/ R.raised \/
                IF NStr = 1 THEN /\ R.gshape = <<PLen>> /\ Len(R.got) = PLen
                                 /\ \A s \in 1..PLen : R.got[s] = Interp(R.strs[1][s])
                ELSE /\ R.gshape = <<PLen, NStr>> /\ Len(R.got) = PLen * NStr
                     /\ \A s \in 1..PLen, j \in 1..NStr : R.got[(s - 1) * NStr + j] = Interp(R.strs[j][s])) \/ Fail("MvArrayConvention")
\* ---- mv_str ----  vals : S x P, got : P strings of S characters
MvStrOK == (~K("mv_str") \/ R.raised \/
              (/\ Len(R.got) = R.P
               /\ \A j \in 1..R.P : Len(R.got[j]) = R.S /\ \A s \in 1..R.S : R.got[j][s] = CharOf(R.vals[(s - 1) * R.P + j]))) \/ Fail("MvStrRendersTable")
\* ---- mv_to_bp ----
NB == CDiv(R.P, 8)
MvToBpOK == (~K("mv_to_bp") \/ R.raised \/
               (/\ R.gshape = R.eshape /\ Len(R.got) = R.A * R.S * 3 * NB
                /\ \A a \in 0..(R.A - 1), s \in 0..(R.S - 1), b \in 0..2, y \in 0..(NB - 1) :
                      R.got[((a * R.S + s) * 3 + b) * NB + y + 1] =
                         LET bitk(k) == IF 8 * y + k < R.P THEN Bit(R.vals[(a * R.S + s) * R.P + 8 * y + k + 1], b) ELSE 0 IN
                         bitk(0) + 2 * bitk(1) + 4 * bitk(2) + 8 * bitk(3) + 16 * bitk(4) + 32 * bitk(5) + 64 * bitk(6) + 128 * bitk(7))) \/ Fail("MvToBpLayout")
\* ---- bp_to_mv ----  vals : A x S x 3 x B bytes
BpToMvOK == (~K("bp_to_mv") \/ R.raised \/
               (/\ R.gshape = R.eshape /\ Len(R.got) = R.A * R.S * 8 * R.B
                /\ \A a \in 0..(R.A - 1), s \in 0..(R.S - 1), q \in 0..(8 * R.B - 1) :
                      R.got[(a * R.S + s) * 8 * R.B + q + 1] =
                         LET pl(b) == Bit(R.vals[((a * R.S + s) * 3 + b) * R.B + (q \div 8) + 1], q % 8) IN pl(0) + 2 * pl(1) + 4 * pl(2))) \/ Fail("BpToMvLayout")
\* ---- unpack / pack ----  ints given as sequences of bits
UnpackOK == (~K("unpack") \/ R.raised \/ (R.gshape = R.eshape /\ R.got = R.bits)) \/ Fail("UnpackLittleEnd")
PackOK == (~K("pack") \/ R.raised \/
             (/\ Len(R.got) = Len(R.rows)
              /\ \A i \in 1..Len(R.rows) : LET row == R.rows[i]  n == Len(row) IN
                    R.got[i] = [k \in 1..R.w |-> IF k <= n THEN row[k] ELSE IF R.signed /\ n > 0 THEN row[n] ELSE 0])) \/ Fail("PackPadsAndTruncates")
Ones8(v) == Bit(v,0) + Bit(v,1) + Bit(v,2) + Bit(v,3) + Bit(v,4) + Bit(v,5) + Bit(v,6) + Bit(v,7)
Ones(q, i) == FoldLeft(LAMBDA acc, v : acc + Ones8(v), 0, SubSeq(q, i, Len(q)))
PopcountOK == (~K("popcount") \/ R.raised \/ R.got = Ones(R.vals, 1)) \/ Fail("PopcountCountsOnes")
=============================================================================
