---------------------------- MODULE ThreadOrder ----------------------------
(***************************************************************************)
(* Schedule generator (R) for C07.  Given the level widths of a published  *)
(* schedule and a number of lanes, a behaviour runs the (lane, operation)  *)
(* threads of each level one after the other in an arbitrary order (the    *)
(* mock GPU launcher runs each thread to completion), level after level.   *)
(* TLC in simulation mode produces random linearisations; with lanes = 1   *)
(* they are the permutations of operations inside every level.  The order  *)
(* is printed when the last level is done and replayed into the real       *)
(* simulators by the harness.                                              *)
(* Case: [widths |-> <<w1, w2, ...>>, lanes |-> n]                         *)
(***************************************************************************)
EXTENDS Integers, Sequences, FiniteSets, TLC, Json, IOUtils
Cases == JsonDeserialize(IOEnv.TRACE_FILE)
VARIABLES tid, lvl, done, order
vars == <<tid, lvl, done, order>>
C == Cases[tid]
NLevels == Len(C.widths)
Threads(l) == (1..C.widths[l]) \X (1..C.lanes)        \* <<op position in level, lane>>
Init == tid \in 1..Len(Cases) /\ lvl = 1 /\ done = {} /\ order = <<>>
Run(t) == /\ lvl <= NLevels /\ t \in Threads(lvl) \ done
          /\ done' = done \cup {t}
          /\ order' = Append(order, <<lvl, t[1], t[2]>>)
          /\ UNCHANGED <<tid, lvl>>
NextLevel == /\ lvl <= NLevels /\ done = Threads(lvl)
             /\ lvl' = lvl + 1 /\ done' = {} /\ UNCHANGED <<tid, order>>
Next == (\E t \in (1..64) \X (1..8) : Run(t)) \/ NextLevel
Spec == Init /\ [][Next]_vars
Emit == lvl = NLevels + 1 => PrintT(<<"ORDER", tid, order>>)
\* every thread of every level runs exactly once, levels in order
Complete == lvl = NLevels + 1 =>
              /\ Len(order) = C.lanes * (LET RECURSIVE S(_) S(k) == IF k > NLevels THEN 0 ELSE C.widths[k] + S(k + 1) IN S(1))
              /\ \A i, j \in 1..Len(order) : i < j => order[i][1] <= order[j][1] /\ order[i] # order[j]
=============================================================================
