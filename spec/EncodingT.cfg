SPECIFICATION Spec
INVARIANT NoException
INVARIANT MvArrayOK
INVARIANT MvStrOK
INVARIANT MvToBpOK
INVARIANT BpToMvOK
INVARIANT UnpackOK
INVARIANT PackOK
INVARIANT PopcountOK
CHECK_DEADLOCK FALSE
