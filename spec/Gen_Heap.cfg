\* behaviour generation (R): every distinct (state, last operation) of the bounded model with a history reaching it
CONSTANTS SIZES = {1, 2, 3}
 MAXEND = 7
 MAXLIVE = 4
 MAXDEPTH = 0
SPECIFICATION Spec
CONSTRAINT Bound
VIEW View
INVARIANT EmitHist
CHECK_DEADLOCK FALSE
