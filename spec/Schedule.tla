------------------------------ MODULE Schedule ------------------------------
(***************************************************************************)
(* Verdict specification (layer V) for C07 and the map half of C08, run    *)
(* on PUBLISHED DATA: every case is what a real kyupy.sim.SimOps object    *)
(* published for one circuit and option setting                            *)
(*   ops    <<out slot, in slot a, b, c, d>>  (0-based slot numbers)       *)
(*   levels <<start, stop>> half-open op index ranges                      *)
(*   loc, cap : slot -> memory location / capacity (-1 / 0 when unmapped)  *)
(*   clen   : reported total size                                          *)
(* together with the structure it was built from (st, see project.py) and  *)
(* the option 'strip'.  Which signal an operand slot STANDS FOR is         *)
(* computed here from the structure alone (SF), never from the alias       *)
(* table of the implementation.                                            *)
(*                                                                         *)
(* Memory is modelled as owner : cell -> tag, where a tag is the slot      *)
(* number of the signal whose value currently occupies the cell, FREE, or  *)
(* Busy(op) while op is writing.  A (simulation, operation) GPU thread     *)
(* touches only column `simulation` of the regions of its operation, so    *)
(* threads of different simulations never conflict and the interleavings   *)
(* of a level are those of its operations.                                 *)
(*                                                                         *)
(* Two specifications over the same definitions:                           *)
(*  SpecInterleave : Begin(op) / End(op) / NextLevel, every interleaving   *)
(*                   of every level (3^k states for a level of k ops)      *)
(*  SpecLevelwise  : one step per level; operands checked at level start   *)
(*                   and the static pairwise condition that makes all      *)
(*                   interleavings equivalent.                             *)
(***************************************************************************)
EXTENDS Integers, Sequences, FiniteSets, TLC, Json, IOUtils
Cases == JsonDeserialize(IOEnv.TRACE_FILE)
VARIABLES tid, lvl, begun, ended, owner, bad
vars == <<tid, lvl, begun, ended, owner, bad>>
C == Cases[tid]
St == C.st
FREE == -1
Busy(o) == -100 - o
FORK == "__fork__"
NOps == Len(C.ops)
NLines == Len(St.lines)
NSlots == Len(C.loc)
Slot(s) == s + 1                                    \* 0-based slot -> TLA index
Loc(s) == C.loc[Slot(s)]
Cap(s) == C.cap[Slot(s)]
Region(s) == Loc(s) .. (Loc(s) + Cap(s) - 1)
ZeroSlot == NLines
Tmp1 == NLines + 1
Tmp2 == NLines + 2
PpiOff == NLines + 3
NS == Len(St.snodes)
PpoOff == PpiOff + NS
Scratch == {Tmp1, Tmp2}
SNodeSet == {St.snodes[i] : i \in 1..NS}
Node(n) == St.nodes[n + 1]
Line(x) == St.lines[x + 1]

\* ---- what a slot stands for, from the structure ----
RECURSIVE StemOf(_)
StemOf(x) == LET d == Line(x).drv IN
             IF C.strip /\ Node(d).kind = FORK /\ d \notin SNodeSet /\ Len(Node(d).ins) > 0 /\ Node(d).ins[1] >= 0
             THEN StemOf(Node(d).ins[1]) ELSE x
SF(s) == IF s < NLines THEN StemOf(s)
         ELSE IF s >= PpoOff THEN LET n == Node(St.snodes[s - PpoOff + 1]) IN
                                  IF Len(n.ins) > 0 /\ n.ins[1] >= 0 THEN StemOf(n.ins[1]) ELSE s
         ELSE s
\* interface inputs: the constant-0 slot and the assigned-value slot of every port / state element that drives something
InputSlots == {ZeroSlot} \cup {PpiOff + i - 1 : i \in {j \in 1..NS : Len(Node(St.snodes[j]).outs) > 0}}
OutputSlots == {PpoOff + i - 1 : i \in {j \in 1..NS : Len(Node(St.snodes[j]).ins) > 0 /\ Node(St.snodes[j]).ins[1] >= 0}}

OutSlot(o) == C.ops[o][1]
InSlots(o) == {C.ops[o][k] : k \in 2..5}
ReadCells(o) == UNION {Region(s) : s \in InSlots(o) \ Scratch}
WriteCells(o) == IF OutSlot(o) \in Scratch THEN {} ELSE Region(OutSlot(o))
LevelOps(l) == (C.levels[l][1] + 1) .. C.levels[l][2]
NLevels == Len(C.levels)

InitOwner(c) == [a \in 0..(c.clen - 1) |->
                   LET nl == Len(c.st.lines)
                       ns == Len(c.st.snodes)
                       ins == {nl} \cup {nl + 3 + i - 1 : i \in {j \in 1..ns : Len(c.st.nodes[c.st.snodes[j] + 1].outs) > 0}}
                       hs == {s \in ins : c.loc[s + 1] >= 0 /\ a \in c.loc[s + 1] .. (c.loc[s + 1] + c.cap[s + 1] - 1)}
                   IN IF hs = {} THEN FREE ELSE CHOOSE s \in hs : TRUE]
Init == /\ tid \in 1..Len(Cases)
        /\ lvl = 1 /\ begun = {} /\ ended = {} /\ bad = "ok"
        /\ owner = InitOwner(Cases[tid])

Mapped(s) == Loc(s) >= 0 /\ Cap(s) > 0 /\ Loc(s) + Cap(s) <= C.clen
\* the operand's region holds, in every cell, the value of the signal the operand stands for
OperandOK(o) == \A s \in InSlots(o) \ Scratch : Mapped(s) /\ \A a \in Region(s) : owner[a] = SF(s)
WriteOK(o) == OutSlot(o) \in Scratch \/ Mapped(OutSlot(o))
Running == begun \ ended
NoRace(o) == \A r \in Running : /\ WriteCells(o) \cap (ReadCells(r) \cup WriteCells(r)) = {}
                                /\ ReadCells(o) \cap WriteCells(r) = {}

\* the result of an operation never shares memory with one of its own operands (both are live while it executes)
SelfOK(o) == WriteCells(o) \cap ReadCells(o) = {}

\* ---------------- SpecInterleave ----------------
Begin(o) == /\ lvl <= NLevels /\ o \in LevelOps(lvl) /\ o \notin begun
            /\ begun' = begun \cup {o}
            /\ bad' = IF bad # "ok" THEN bad
                      ELSE IF ~WriteOK(o) THEN "unmapped-output"
                      ELSE IF ~OperandOK(o) THEN "read-invalid"
                      ELSE IF ~SelfOK(o) THEN "self-overlap"
                      ELSE IF ~NoRace(o) THEN "race" ELSE "ok"
            /\ owner' = [a \in DOMAIN owner |-> IF WriteOK(o) /\ a \in WriteCells(o) THEN Busy(o) ELSE owner[a]]
            /\ UNCHANGED <<tid, lvl, ended>>
End(o) == /\ o \in Running
          /\ ended' = ended \cup {o}
          /\ owner' = [a \in DOMAIN owner |-> IF WriteOK(o) /\ a \in WriteCells(o) THEN OutSlot(o) ELSE owner[a]]
          /\ UNCHANGED <<tid, lvl, begun, bad>>
NextLevel == /\ lvl <= NLevels /\ LevelOps(lvl) \subseteq ended
             /\ lvl' = lvl + 1 /\ UNCHANGED <<tid, begun, ended, owner, bad>>
NextI == (\E o \in 1..NOps : Begin(o) \/ End(o)) \/ NextLevel
SpecInterleave == Init /\ [][NextI]_vars

\* ---------------- SpecLevelwise ----------------
Pairwise(l) == \A o1, o2 \in LevelOps(l) : o1 # o2 => WriteCells(o1) \cap (ReadCells(o2) \cup WriteCells(o2)) = {}
RunLevel == /\ lvl <= NLevels
            /\ bad' = IF bad # "ok" THEN bad
                      ELSE IF \E o \in LevelOps(lvl) : ~WriteOK(o) THEN "unmapped-output"
                      ELSE IF \E o \in LevelOps(lvl) : ~OperandOK(o) THEN "read-invalid"
                      ELSE IF \E o \in LevelOps(lvl) : ~SelfOK(o) THEN "self-overlap"
                      ELSE IF ~Pairwise(lvl) THEN "race" ELSE "ok"
            /\ owner' = [a \in DOMAIN owner |->
                           LET ws == {o \in LevelOps(lvl) : WriteOK(o) /\ a \in WriteCells(o)} IN
                           IF ws = {} THEN owner[a] ELSE OutSlot(CHOOSE o \in ws : TRUE)]
            /\ lvl' = lvl + 1 /\ UNCHANGED <<tid, begun, ended>>
SpecLevelwise == Init /\ [][RunLevel]_vars

\* ---------------- verdicts ----------------
Fail(p, c) == PrintT(<<"FAIL", p, tid, lvl, c>>) /\ FALSE
\* C07: no operation reads a signal produced in its own or a later level; operands come from earlier levels or inputs
ReadsValid == bad # "read-invalid" \/ Fail("C07", "ReadsValid")
\* C07: memory released in a level is never handed out again within that level (no write overlaps a concurrent access)
RaceFree == bad # "race" \/ Fail("C07", "RaceFree")
OutputsMapped == bad # "unmapped-output" \/ Fail("C08", "OutputsMapped")
\* C08: operand and result of one operation are simultaneously live and must not overlap
ResultApartFromOperands == bad # "self-overlap" \/ Fail("C08", "ResultApartFromOperands")
Terminal == lvl = NLevels + 1
\* C07: the level partition is a partition of the operation list
LevelsPartition == (/\ NLevels >= 1 /\ C.levels[1][1] = 0 /\ C.levels[NLevels][2] = NOps
                    /\ \A i \in 1..NLevels : C.levels[i][1] < C.levels[i][2]
                    /\ \A i \in 1..(NLevels - 1) : C.levels[i][2] = C.levels[i + 1][1]) \/ Fail("C07", "LevelsPartition")
\* C08: inputs, outputs and state-element values are intact when results are read
Pinned == (Terminal /\ bad = "ok" =>
             /\ \A s \in InputSlots : Mapped(s) /\ \A a \in Region(s) : owner[a] = s
             /\ \A s \in OutputSlots : Mapped(s) /\ \A a \in Region(s) : owner[a] = SF(s)) \/ Fail("C08", "Pinned")
\* C08: everything mapped lies within the reported total size
WithinCLen == (\A s \in 0..(NSlots - 1) : Loc(s) >= 0 => Cap(s) > 0 /\ Loc(s) + Cap(s) <= C.clen) \/ Fail("C08", "WithinCLen")
\* C08: a stripped fan-out branch and every output slot are aliased exactly to the signal they stand for
AliasExact == (\A s \in (0..(NLines - 1)) \cup OutputSlots :
                  SF(s) # s => Loc(s) = Loc(SF(s)) /\ Cap(s) = Cap(SF(s))) \/ Fail("C08", "AliasExact")
\* C08: no two distinct interface input slots share memory (they are all live from start to end)
InputsDisjoint == (\A s, t \in InputSlots \cup Scratch : s # t => Region(s) \cap Region(t) = {}) \/ Fail("C08", "InputsDisjoint")
\* C08: the scratch slots (used as temporaries by the multi-valued evaluation of complex gates and as sink of gates
\* with unconnected output) share memory with no signal - they are live during the whole propagation
ScratchPrivate == (\A t \in Scratch : Mapped(t) /\ \A s \in 0..(NSlots - 1) :
                      (s # t /\ Loc(s) >= 0) => Region(s) \cap Region(t) = {}) \/ Fail("C08", "ScratchPrivate")
\* sanity of the published data the harness extracted (machinery, not a verdict)
WellFormedCase == /\ NSlots = PpoOff + NS
                  /\ \A o \in 1..NOps : \A k \in 1..5 : C.ops[o][k] \in 0..(NSlots - 1)
ASSUME \A i \in 1..Len(Cases) : Len(Cases[i].loc) = Len(Cases[i].st.lines) + 3 + 2 * Len(Cases[i].st.snodes)
=============================================================================
