------------------------------ MODULE Traverse ------------------------------
(***************************************************************************)
(* Verdict specification (layer V) for C17.  The abstract specification of *)
(* a traversal admits EVERY valid order: a node may be yielded once all    *)
(* drivers of its connected input pins have been yielded; ports without    *)
(* driver and state elements are sources (the graph is cut at state        *)
(* elements).  A recorded sequence of the REAL generators is validated     *)
(* position by position (one state per position), so a verdict names the   *)
(* position and the clause.                                                *)
(* Record: [st (structure + seq), topo, lvl, lines, rev : sequences        *)
(*          yielded by topological_order(_with_level), _line_order,        *)
(*          reversed_topological_order; fan : << [orig, got] >> results    *)
(*          of fanin(origins); raised]                                     *)
(***************************************************************************)
EXTENDS Integers, Sequences, FiniteSets, TLC, Json, IOUtils
Recs == JsonDeserialize(IOEnv.TRACE_FILE)
VARIABLES tid, l
vars == <<tid, l>>
R == Recs[tid]
St == R.st
NN == Len(St.nodes)
NL == Len(St.lines)
MaxLen == LET S == {Len(R.topo), Len(R.rev), Len(R.lines), NN} IN CHOOSE m \in S : \A k \in S : k <= m
Init == tid \in 1..Len(Recs) /\ l = 0
Next == l < MaxLen /\ l' = l + 1 /\ UNCHANGED tid
Spec == Init /\ [][Next]_vars
Fail(c) == PrintT(<<"FAIL", "C17", tid, l, c>>) /\ FALSE
Ok == ~R.raised
NoException == Ok \/ Fail("NoException")
Nd(n) == St.nodes[n + 1]
State(n) == St.seq[n + 1] # 0
Conn(q) == {q[k] : k \in 1..Len(q)} \ {-1}
Drivers(n) == {St.lines[x + 1].drv : x \in Conn(Nd(n).ins)}
Readers(n) == {St.lines[x + 1].rdr : x \in Conn(Nd(n).outs)}
Source(n) == Conn(Nd(n).ins) = {} \/ State(n)
Sink(n) == Conn(Nd(n).outs) = {} \/ State(n)
Before(q, k) == {q[i] : i \in 1..(k - 1)}
InSeq(q) == l >= 1 /\ l <= Len(q)
\* ---- topological_order ----
TopoOnce == (Ok /\ InSeq(R.topo) => R.topo[l] \in 0..(NN - 1) /\ R.topo[l] \notin Before(R.topo, l)) \/ Fail("TopoOnce")
DriversFirst == (Ok /\ InSeq(R.topo) /\ R.topo[l] \in 0..(NN - 1) =>
                   (Source(R.topo[l]) \/ Drivers(R.topo[l]) \subseteq Before(R.topo, l))) \/ Fail("DriversFirst")
\* inputs and state elements first
SourcesFirst == (Ok /\ InSeq(R.topo) /\ R.topo[l] \in 0..(NN - 1) /\ Source(R.topo[l]) =>
                   \A m \in Before(R.topo, l) : m \in 0..(NN - 1) => Source(m)) \/ Fail("SourcesFirst")
\* every node - also nodes with unconnected pins - is yielded
TopoComplete == (Ok /\ l = MaxLen => {R.topo[i] : i \in 1..Len(R.topo)} = 0..(NN - 1)) \/ Fail("TopoComplete")
\* ---- levels: longest combinational distance from a source (forks count) ----
PosIn(q, n) == CHOOSE i \in 1..Len(q) : q[i] = n
LevelIsLongestPath ==
   (Ok /\ InSeq(R.topo) /\ Len(R.lvl) = Len(R.topo) /\ R.topo[l] \in 0..(NN - 1) /\ Drivers(R.topo[l]) \subseteq Before(R.topo, l) =>
       R.lvl[l] = (IF Source(R.topo[l]) THEN 0
                   ELSE LET ds == {R.lvl[PosIn(R.topo, d)] : d \in Drivers(R.topo[l])} IN
                        1 + (CHOOSE m \in ds : \A k \in ds : k <= m))) \/ Fail("LevelIsLongestPath")
LevelsAligned == (Ok /\ l = 0 => Len(R.lvl) = Len(R.topo)) \/ Fail("LevelsAligned")
\* ---- topological_line_order: every line once, after the lines feeding its driver ----
LinesOnce == (Ok /\ InSeq(R.lines) => R.lines[l] \in 0..(NL - 1) /\ R.lines[l] \notin Before(R.lines, l)) \/ Fail("LinesOnce")
LinesComplete == (Ok /\ l = MaxLen => {R.lines[i] : i \in 1..Len(R.lines)} = 0..(NL - 1)) \/ Fail("LinesComplete")
LinesTopological == (Ok /\ InSeq(R.lines) /\ R.lines[l] \in 0..(NL - 1) =>
                       LET d == St.lines[R.lines[l] + 1].drv IN
                       Source(d) \/ Conn(Nd(d).ins) \subseteq Before(R.lines, l)) \/ Fail("LinesTopological")
\* ---- reversed_topological_order: a valid order of the mirrored graph ----
RevOnce == (Ok /\ InSeq(R.rev) => R.rev[l] \in 0..(NN - 1) /\ R.rev[l] \notin Before(R.rev, l)) \/ Fail("ReverseOnce")
ReadersFirst == (Ok /\ InSeq(R.rev) /\ R.rev[l] \in 0..(NN - 1) =>
                   (Sink(R.rev[l]) \/ Readers(R.rev[l]) \subseteq Before(R.rev, l))) \/ Fail("ReverseIsMirror")
RevComplete == (Ok /\ l = MaxLen => {R.rev[i] : i \in 1..Len(R.rev)} = 0..(NN - 1)) \/ Fail("ReverseComplete")
\* ---- fanin(origins) ----
RECURSIVE Close(_, _, _)
\* backward closure: a node in the cone passes the cone on to its drivers unless it is a (non-origin) state element
Close(C, O, k) == IF k = 0 THEN C
                  ELSE LET N == C \cup UNION {Drivers(n) : n \in {m \in C : m \in O \/ ~State(m)}} IN
                       IF N = C THEN C ELSE Close(N, O, k - 1)
Cone(O) == Close(O, O, NN)                                   \* combinational paths only (cut at non-origin state elements)
RECURSIVE CloseAll(_, _)
CloseAll(C, k) == IF k = 0 THEN C ELSE LET N == C \cup UNION {Drivers(n) : n \in C} IN IF N = C THEN C ELSE CloseAll(N, k - 1)
ConeAll(O) == CloseAll(O, NN)                                \* any path, also through state elements
FanChecked == l = 0
FanInSound == (Ok /\ FanChecked => \A f \in 1..Len(R.fan) :
                 LET O == {R.fan[f].orig[i] : i \in 1..Len(R.fan[f].orig)}
                     G == R.fan[f].got IN
                 /\ {G[i] : i \in 1..Len(G)} \subseteq ConeAll(O)         \* no node without any path
                 /\ \A i, j \in 1..Len(G) : i # j => G[i] # G[j]) \/ Fail("FanInSound")
FanInComplete == (Ok /\ FanChecked => \A f \in 1..Len(R.fan) :
                 LET O == {R.fan[f].orig[i] : i \in 1..Len(R.fan[f].orig)}
                     G == R.fan[f].got IN
                 {n \in Cone(O) : n \in O \/ ~State(n)} \subseteq {G[i] : i \in 1..Len(G)}) \/ Fail("FanInComplete")
=============================================================================
