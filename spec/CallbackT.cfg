SPECIFICATION Spec
INVARIANT Sane
INVARIANT NoException
INVARIANT OncePerSignal
INVARIANT InOrder
INVARIANT ViewIsFresh
INVARIANT NoOpUnchanged
INVARIANT RerunClean
INVARIANT OverrideIsRedrive
CHECK_DEADLOCK FALSE
