------------------------------- MODULE Logic -------------------------------
(***************************************************************************)
(* The documented multi-valued algebra of kyupy.logic (layer V).           *)
(* A value is a 3-bit code: bit0 = final value, bit1 = initial value,      *)
(* bit2 = activity; 001 is UNKNOWN (X) and 010 is UNASSIGNED (-).          *)
(* Semantics as documented: a plain controlling constant dominates;        *)
(* otherwise an unknown or unassigned operand makes the result unknown;    *)
(* otherwise the operator acts component-wise on initial and final value   *)
(* and the activity is the union of the operands' activity.                *)
(* 4-valued logic is the same algebra restricted to codes 0..3.            *)
(* Second half: the bit-plane formulas of bp4v_* / bp8v_* transcribed for  *)
(* one lane (logic.py:283-387); (M) shows that plane form = code form.     *)
(***************************************************************************)
EXTENDS Integers, Sequences, FiniteSets
ZERO == 0  UNKNOWN == 1  UNASSIGNED == 2  ONE == 3
PPULSE == 4  RISE == 5  FALL == 6  NPULSE == 7
V8 == 0..7
V4 == 0..3
Fin(v) == v % 2
Ini(v) == (v \div 2) % 2
Act(v) == (v \div 4) % 2
Mk(i, f, a) == 4 * a + 2 * i + f
Known(v) == v \notin {UNKNOWN, UNASSIGNED}
B(x) == IF x THEN 1 ELSE 0

Not8(a) == IF ~Known(a) THEN UNKNOWN ELSE Mk(1 - Ini(a), 1 - Fin(a), Act(a))
And8(S) ==     \* S: non-empty sequence of operands
   IF \E k \in 1..Len(S) : S[k] = ZERO THEN ZERO
   ELSE IF \E k \in 1..Len(S) : ~Known(S[k]) THEN UNKNOWN
   ELSE Mk(B(\A k \in 1..Len(S) : Ini(S[k]) = 1), B(\A k \in 1..Len(S) : Fin(S[k]) = 1),
           B(\E k \in 1..Len(S) : Act(S[k]) = 1))
Or8(S) ==
   IF \E k \in 1..Len(S) : S[k] = ONE THEN ONE
   ELSE IF \E k \in 1..Len(S) : ~Known(S[k]) THEN UNKNOWN
   ELSE Mk(B(\E k \in 1..Len(S) : Ini(S[k]) = 1), B(\E k \in 1..Len(S) : Fin(S[k]) = 1),
           B(\E k \in 1..Len(S) : Act(S[k]) = 1))
Par(S, F(_)) == (Cardinality({k \in 1..Len(S) : F(S[k]) = 1})) % 2
Xor8(S) ==
   IF \E k \in 1..Len(S) : ~Known(S[k]) THEN UNKNOWN
   ELSE Mk(Par(S, Ini), Par(S, Fin), B(\E k \in 1..Len(S) : Act(S[k]) = 1))

\* transition from the initial value of a to the final value of b (logic.mv_transition)
Transition(a, b) ==
   IF a = UNASSIGNED /\ b = UNASSIGNED THEN UNASSIGNED
   ELSE IF ~Known(a) \/ ~Known(b) THEN UNKNOWN
   ELSE Mk(Ini(a), Fin(b), B(Ini(a) # Fin(b)))

\* level-sensitive latch (logic.mv_latch / bp8v_latch): transparent while t is high; the initial value is d's initial
\* value if t starts high, else the previous output's final value; the final value is d's final value if t ends
\* high, else the latched initial value; unknown control, or unknown data while not firmly closed, gives X
Latch8(d, t, q) == IF ~Known(t) \/ (~Known(d) /\ t # ZERO) THEN UNKNOWN
                   ELSE LET i == IF Ini(t) = 1 THEN Ini(d) ELSE Fin(q)
                            f == IF Fin(t) = 1 THEN Fin(d) ELSE i
                        IN Mk(i, f, B(i # f))
\* information order: X and - may be refined to 0 or 1, everything else only to itself
Compl(v) == IF Known(v) THEN {v} ELSE {ZERO, ONE}

(***************************************************************************)
(* Bit-plane form, one lane: a value is <<p0, p1, p2>> with p0 = bit0 etc. *)
(***************************************************************************)
Pl(v) == <<Fin(v), Ini(v), Act(v)>>
Un(p) == p[1] + 2 * p[2] + 4 * p[3]
BNot(x) == 1 - x
BAnd(x, y) == x * y
BOr(x, y) == IF x + y > 0 THEN 1 ELSE 0
BXor(x, y) == (x + y) % 2
\* 8-valued
Unk8(p) == BAnd(BXor(p[1], p[2]), BNot(p[3]))
RECURSIVE FoldOr(_, _, _), FoldAnd(_, _, _), FoldXor(_, _, _)
FoldOr(S, F(_), k) == IF k > Len(S) THEN 0 ELSE BOr(F(S[k]), FoldOr(S, F, k + 1))
FoldAnd(S, F(_), k) == IF k > Len(S) THEN 1 ELSE BAnd(F(S[k]), FoldAnd(S, F, k + 1))
FoldXor(S, F(_), k) == IF k > Len(S) THEN 0 ELSE BXor(F(S[k]), FoldXor(S, F, k + 1))
P1(p) == p[1]  P2(p) == p[2]  P3(p) == p[3]
Bp8Not(p) == LET u == Unk8(p) IN <<BOr(BNot(p[1]), u), BAnd(BNot(p[2]), BNot(u)), BAnd(p[3], BNot(u))>>
Bp8Or(S) == LET au == FoldOr(S, Unk8, 1)
                One(p) == BAnd(BAnd(p[1], p[2]), BNot(p[3]))
                ao == FoldOr(S, One, 1)
                keep == BOr(BNot(au), ao)
            IN <<BOr(FoldOr(S, P1, 1), au), BAnd(FoldOr(S, P2, 1), keep), BAnd(BAnd(FoldOr(S, P3, 1), keep), BNot(ao))>>
Bp8And(S) == LET au == FoldOr(S, Unk8, 1)
                 Zero(p) == BAnd(BAnd(BNot(p[1]), BNot(p[2])), BNot(p[3]))
                 az == FoldOr(S, Zero, 1)
                 L1(p) == BOr(p[1], BAnd(au, BNot(az)))
             IN <<FoldAnd(S, L1, 1), BAnd(FoldAnd(S, P2, 1), BNot(au)),
                  BAnd(BAnd(FoldOr(S, P3, 1), BOr(BNot(au), az)), BNot(az))>>
Bp8Xor(S) == LET au == FoldOr(S, Unk8, 1) IN
             <<BOr(FoldXor(S, P1, 1), au), BAnd(FoldXor(S, P2, 1), BNot(au)), BAnd(FoldOr(S, P3, 1), BNot(au))>>
\* 4-valued (two planes; the third component is carried as 0)
Unk4(p) == BXor(p[1], p[2])
Bp4Not(p) == LET u == Unk4(p) IN <<BOr(BNot(p[1]), u), BAnd(BNot(p[2]), BNot(u)), 0>>
Bp4Or(S) == LET au == FoldOr(S, Unk4, 1)
                One(p) == BAnd(p[1], p[2])
                ao == FoldOr(S, One, 1)
            IN <<BOr(FoldOr(S, P1, 1), au), BAnd(FoldOr(S, P2, 1), BOr(BNot(au), ao)), 0>>
Bp4And(S) == LET au == FoldOr(S, Unk4, 1)
                 Zero(p) == BAnd(BNot(p[1]), BNot(p[2]))
                 az == FoldOr(S, Zero, 1)
                 L1(p) == BOr(p[1], BAnd(au, BNot(az)))
             IN <<FoldAnd(S, L1, 1), BAnd(FoldAnd(S, P2, 1), BNot(au)), 0>>
Bp4Xor(S) == LET au == FoldOr(S, Unk4, 1) IN
             <<BOr(FoldXor(S, P1, 1), au), BAnd(FoldXor(S, P2, 1), BNot(au)), 0>>
=============================================================================
