SPECIFICATION Spec
INVARIANT NoException
INVARIANT TopoOnce
INVARIANT DriversFirst
INVARIANT SourcesFirst
INVARIANT TopoComplete
INVARIANT LevelIsLongestPath
INVARIANT LevelsAligned
INVARIANT LinesOnce
INVARIANT LinesComplete
INVARIANT LinesTopological
INVARIANT RevOnce
INVARIANT ReadersFirst
INVARIANT RevComplete
INVARIANT FanInSound
INVARIANT FanInComplete
CHECK_DEADLOCK FALSE
