\* design run (M), thorough: sizes {2,3,5}, managed range <= 16, <= 5 live chunks
CONSTANTS SIZES = {2, 3, 5}
 MAXEND = 16
 MAXLIVE = 5
 MAXDEPTH = 0
SPECIFICATION Spec
CONSTRAINT Bound
VIEW View
INVARIANT Tiling
INVARIANT FreeLive
INVARIANT Sorted
INVARIANT Coalesced
INVARIANT HighWater
INVARIANT NoOverlapOnAlloc
INVARIANT WithinRange
CHECK_DEADLOCK FALSE
