\* design run (M): 2 inputs, NAND2 / XOR2, times 0..3, <= 2 transitions per input, four independent delay entries in {0,2},
\* capacity 4 (overflow reachable)
CONSTANTS
  NIN = 2
  LUTS = {30583, 26214}
  TGRID = 3
  MAXTR = 2
  DVALS = {0, 2}
  CAPS = {4}
  POLDEP = TRUE
SPECIFICATION Spec
INVARIANT TypeOK
INVARIANT Functional
INVARIANT Window
INVARIANT Quiet
INVARIANT OvlFlag
INVARIANT EdgeIsInputPlusDelay
INVARIANT CountsMatch
INVARIANT WithinCap
CHECK_DEADLOCK FALSE
