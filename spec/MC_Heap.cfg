\* design run (M): all histories with sizes {1,2,3}, managed range <= 9, <= 5 live chunks
CONSTANTS SIZES = {1, 2, 3}
 MAXEND = 9
 MAXLIVE = 5
 MAXDEPTH = 0
SPECIFICATION Spec
CONSTRAINT Bound
VIEW View
INVARIANT Tiling
INVARIANT FreeLive
INVARIANT Sorted
INVARIANT Coalesced
INVARIANT HighWater
INVARIANT NoOverlapOnAlloc
INVARIANT WithinRange
CHECK_DEADLOCK FALSE
