----------------------------- MODULE CircuitWF -----------------------------
(***************************************************************************)
(* Verdict formulas (layer V) of C09, state-fed: every trace is a recorded *)
(* edit history of a REAL kyupy Circuit; after every public edit the       *)
(* harness logs the full projection of the object (project.py, full=True): *)
(*  nodes <<[name, kind, idx, ins, outs]>>, lines <<[idx, drv, dpin, rdr,  *)
(*  rpin]>>, cells / forks <<<<name, node>>>>, io, stats <<<<key, n>>>>.   *)
(*  -1 = open pin, -2 = reference to an object that is not in the circuit. *)
(* Event: [act |-> <<...>>, st |-> projection, raised, eq]                 *)
(***************************************************************************)
EXTENDS Integers, Sequences, FiniteSets, TLC, Json, IOUtils
Traces == JsonDeserialize(IOEnv.TRACE_FILE)
VARIABLES tid, l
vars == <<tid, l>>
Init == tid \in 1..Len(Traces) /\ l = 1
Next == l < Len(Traces[tid]) /\ l' = l + 1 /\ tid' = tid
Spec == Init /\ [][Next]_vars
E == Traces[tid][l]
S == E.st
FORK == "__fork__"
NN == Len(S.nodes)
NL == Len(S.lines)
Fail(c) == PrintT(<<"FAIL", "C09", tid, l, c>>) /\ FALSE
Ok == ~E.raised
NoException == Ok \/ Fail("NoException")
\* node and line indices are consecutive and equal to list positions
IndexIsPosition == (Ok => /\ \A i \in 1..NN : S.nodes[i].idx = i - 1
                          /\ \A i \in 1..NL : S.lines[i].idx = i - 1) \/ Fail("IndexIsPosition")
Lookup(m, nm) == {m[k][2] : k \in {j \in 1..Len(m) : m[j][1] = nm}}
\* cell and fork name lookups resolve to the node of that name and kind, and contain every node exactly once
NameMaps == (Ok => /\ \A k \in 1..Len(S.cells) : S.cells[k][2] + 1 \in 1..NN /\
                        LET n == S.nodes[S.cells[k][2] + 1] IN n.name = S.cells[k][1] /\ n.kind # FORK
                   /\ \A k \in 1..Len(S.forks) : S.forks[k][2] + 1 \in 1..NN /\
                        LET n == S.nodes[S.forks[k][2] + 1] IN n.name = S.forks[k][1] /\ n.kind = FORK
                   /\ \A i \in 1..NN : IF S.nodes[i].kind = FORK THEN Lookup(S.forks, S.nodes[i].name) = {i - 1}
                                        ELSE Lookup(S.cells, S.nodes[i].name) = {i - 1}
                   /\ Len(S.cells) + Len(S.forks) = NN) \/ Fail("NameMaps")
\* every line is referenced from exactly the driver output pin and the reader input pin it records, from nowhere else
BackRefs == (Ok => /\ \A i \in 1..NL : LET L == S.lines[i] IN
                        /\ L.drv + 1 \in 1..NN /\ L.rdr + 1 \in 1..NN
                        /\ L.dpin + 1 \in 1..Len(S.nodes[L.drv + 1].outs) /\ S.nodes[L.drv + 1].outs[L.dpin + 1] = i - 1
                        /\ L.rpin + 1 \in 1..Len(S.nodes[L.rdr + 1].ins) /\ S.nodes[L.rdr + 1].ins[L.rpin + 1] = i - 1
                   /\ \A n \in 1..NN :
                        /\ \A k \in 1..Len(S.nodes[n].outs) : LET x == S.nodes[n].outs[k] IN
                               x # -1 => x + 1 \in 1..NL /\ S.lines[x + 1].drv = n - 1 /\ S.lines[x + 1].dpin = k - 1
                        /\ \A k \in 1..Len(S.nodes[n].ins) : LET x == S.nodes[n].ins[k] IN
                               x # -1 => x + 1 \in 1..NL /\ S.lines[x + 1].rdr = n - 1 /\ S.lines[x + 1].rpin = k - 1) \/ Fail("BackRefs")
\* fork outputs stay gap-free
ForksGapFree == (Ok => \A n \in 1..NN : S.nodes[n].kind = FORK => \A k \in 1..Len(S.nodes[n].outs) : S.nodes[n].outs[k] # -1) \/ Fail("ForksGapFree")
\* ports are nodes of the circuit
PortsInCircuit == (Ok => \A k \in 1..Len(S.io) : S.io[k] + 1 \in 1..NN) \/ Fail("PortsInCircuit")
\* the reported statistics match the containers
Stat(key) == LET h == {k \in 1..Len(S.stats) : S.stats[k][1] = key} IN IF h = {} THEN 0 ELSE S.stats[CHOOSE k \in h : TRUE][2]
Cells == {i \in 1..NN : S.nodes[i].kind # FORK}
Stats == (Ok => /\ Stat("__node__") = NN /\ Stat("__line__") = NL
                /\ Stat("__cell__") = Cardinality(Cells) /\ Stat("__fork__") = NN - Cardinality(Cells)
                /\ Stat("__io__") = Len(S.io)
                /\ Stat("__dff__") = Cardinality({i \in Cells : S.nodes[i].seqk = 1})
                /\ Stat("__latch__") = Cardinality({i \in Cells : S.nodes[i].seqk = 2})
                /\ Stat("__seq__") = Cardinality({i \in Cells : S.nodes[i].seqk \in {1, 2}})
                /\ \A i \in Cells : Stat(S.nodes[i].kind) = Cardinality({j \in Cells : S.nodes[j].kind = S.nodes[i].kind})) \/ Fail("Stats")
\* copy() and a pickle round trip yield an object with identical projection that compares equal
IsCloneStep == E.act[1] \in {"Copy", "Pickle"}
\* (modulo trailing unconnected pins, which a rebuilt pin list does not have)
RECURSIVE Trim(_)
Trim(q) == IF Len(q) > 0 /\ q[Len(q)] = -1 THEN Trim(SubSeq(q, 1, Len(q) - 1)) ELSE q
NormNodes(st) == [i \in 1..Len(st.nodes) |-> [st.nodes[i] EXCEPT !.ins = Trim(@), !.outs = Trim(@)]]
CloneIdentical == (Ok /\ IsCloneStep /\ l > 1 =>
                     LET P == Traces[tid][l - 1].st IN
                     /\ NormNodes(S) = NormNodes(P) /\ S.lines = P.lines /\ S.io = P.io
                     /\ S.cells = P.cells /\ S.forks = P.forks /\ S.stats = P.stats /\ E.eq) \/ Fail("CloneIdentical")
=============================================================================
