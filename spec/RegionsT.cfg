SPECIFICATION Spec
INVARIANT NoException
INVARIANT StemsAreStems
INVARIANT StemsComplete
INVARIANT StemsOnce
INVARIANT RegionIsTree
INVARIANT RegionOnce
INVARIANT RegionRootFirst
INVARIANT StemsReversed
INVARIANT BatchTiles
INVARIANT CdivIsCeiling
CHECK_DEADLOCK FALSE
