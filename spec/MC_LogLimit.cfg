CONSTANTS MAXN = 3
 MAXMSG = 7
SPECIFICATION Spec
INVARIANT NothingLost
INVARIANT InOrder
INVARIANT OpenOutside
INVARIANT WindowBound
PROPERTY SummaryOnlyAtStop
CHECK_DEADLOCK FALSE
