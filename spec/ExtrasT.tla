------------------------------- MODULE ExtrasT -------------------------------
(***************************************************************************)
(* Behaviour beyond the listed properties (reported as EXTRA lines, never  *)
(* as a property violation): the latch and transition operators in both    *)
(* storage formats against Logic.Latch8 / Logic.Transition on every        *)
(* operand tuple.  Record: [fn, ins : << codes >>, res : code]             *)
(***************************************************************************)
EXTENDS Logic, TLC, Json, IOUtils
Recs == JsonDeserialize(IOEnv.TRACE_FILE)
VARIABLE tid
Init == tid \in 1..Len(Recs)
Next == UNCHANGED tid
Spec == Init /\ [][Next]_tid
R == Recs[tid]
Note(c) == PrintT(<<"INFO", "extra", c, R.fn, R.ins, R.res>>) /\ FALSE
Expected == CASE R.fn = "mv_latch" -> Latch8(R.ins[1], R.ins[2], R.ins[3])
              [] R.fn = "bp8v_latch" -> Latch8(R.ins[1], R.ins[2], R.ins[3])
              [] R.fn = "mv_transition" -> Transition(R.ins[1], R.ins[2])
Agrees == R.res = Expected \/ Note("differs")
=============================================================================
