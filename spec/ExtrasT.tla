------------------------------- MODULE ExtrasT -------------------------------
(***************************************************************************)
(* Behaviour beyond the listed properties (reported as EXTRA lines, never  *)
(* as a property violation): the latch and transition operators in both    *)
(* storage formats against Logic.Latch8 / Logic.Transition on every        *)
(* operand tuple; LogicSim.s_ppo_to_ppi in 4- and 8-valued mode.           *)
(* Record: [fn, ins : << codes >>, res : code]                             *)
(***************************************************************************)
EXTENDS Logic, TLC, Json, IOUtils
Recs == JsonDeserialize(IOEnv.TRACE_FILE)
VARIABLE tid
Init == tid \in 1..Len(Recs)
Next == UNCHANGED tid
Spec == Init /\ [][Next]_tid
R == Recs[tid]
Note(c) == PrintT(<<"INFO", "extra", c, R.fn, R.ins, R.res>>) /\ FALSE
Expected == CASE R.fn = "mv_latch" -> Latch8(R.ins[1], R.ins[2], R.ins[3])
              [] R.fn = "bp8v_latch" -> Latch8(R.ins[1], R.ins[2], R.ins[3])
              [] R.fn = "mv_transition" -> Transition(R.ins[1], R.ins[2])
              \* state transfer between clock cycles: 4-valued - the captured value becomes the assignment;
              \* 8-valued - a transition from the FINAL value of the old assignment to the final value captured
              [] R.fn = "ppo_to_ppi4" -> R.ins[2]
              [] R.fn = "ppo_to_ppi8" -> IF Known(R.ins[1]) /\ Known(R.ins[2])
                                         THEN Mk(Fin(R.ins[1]), Fin(R.ins[2]), B(Fin(R.ins[1]) # Fin(R.ins[2]))) ELSE UNKNOWN
Agrees == R.res = Expected \/ Note("differs")
=============================================================================
