--------------------------- MODULE LogLimitTrace ---------------------------
(***************************************************************************)
(* Trace validation for X03: a recorded history of calls on a real         *)
(* kyupy.Log (logfile redirected to a buffer) is replayed through the      *)
(* actions of LogLimit.tla; after every call the lines the real object     *)
(* wrote must be the lines the specification writes.  Differences are      *)
(* printed as INFO/extra (not a listed property).                          *)
(* Event: [op : "start" | "log" | "stop", n, lines : << <<kind, v>> >>     *)
(*         (everything written so far), raised]                            *)
(***************************************************************************)
EXTENDS LogLimit, TLC, Json, IOUtils
Traces == JsonDeserialize(IOEnv.TRACE_FILE)
VARIABLES tid, l, devat
tvars == <<vars, tid, l, devat>>
TInit == Init /\ tid \in 1..Len(Traces) /\ l = 0 /\ devat = 0
Ev == Traces[tid].ev[l + 1]
\* Named deviation of the implementation (kept as an action so that the REST of the history is still validated):
\* leaving a window that held messages back writes no summary line.
StopSilent == /\ inwin
              /\ filtered' = 0 /\ limit' = -1 /\ inwin' = FALSE
              /\ UNCHANGED <<out, issued, wn, wstart>>
TStep == /\ l < Len(Traces[tid].ev)
         /\ l' = l + 1 /\ tid' = tid
         /\ CASE Ev.op = "start" -> Start(Ev.n)
              [] Ev.op = "log" -> Log
              [] Ev.op = "stop" -> IF filtered > 0 /\ Ev.lines = out THEN StopSilent /\ devat' = l + 1 ELSE Stop /\ UNCHANGED devat
         /\ (Ev.op # "stop" => UNCHANGED devat)
TSpec == TInit /\ [][TStep]_tvars
Prev == Traces[tid].ev[l]
Note(c) == PrintT(<<"INFO", "extra", Traces[tid].uid, l, c>>) /\ FALSE
NoException == (l >= 1 => ~Prev.raised) \/ Note("NoException")
SummaryWritten == (l >= 1 => devat # l) \/ Note("SummaryWritten")
WritesAsSpecified == (l >= 1 /\ ~Prev.raised => Prev.lines = out) \/ Note("WritesAsSpecified")
=============================================================================
