------------------------------- MODULE ChainsT -------------------------------
(***************************************************************************)
(* Verdict specification (layer V) for C01/C02 at SCALE.  Netlist.Eval     *)
(* folds over all nodes with a function update per node - quadratic in     *)
(* TLC, fine for circuits of tens of nodes, out of reach for the tens of   *)
(* thousands of signals at which 16-bit indices wrap.  For circuits that   *)
(* are given as a set of CHAINS the meaning is a fold per chain:           *)
(*   chain = input value, then stages <<primitive, side>>: the running     *)
(*   value goes to pin 0 of a one- or two-input gate, pin 1 (if any) is    *)
(*   the shared side input number `side` (1-based; 0: none).               *)
(* The harness builds ONE real circuit from the description through the    *)
(* public Circuit / Node / Line API (all chains side by side, the side     *)
(* inputs fanning out to every stage that names them), simulates it with   *)
(* the real LogicSim and records what is captured at the end of each chain.*)
(* Record: [m, lanes, side : << <<code per lane>> >>,                      *)
(*          chains : << [inp : <<code per lane>>, ops : << <<prim, side>> >>,*)
(*                       got : <<code per lane>>] >>, raised]              *)
(* One state per (record, chain).                                          *)
(***************************************************************************)
EXTENDS Prims, Integers, Sequences, SequencesExt, TLC, Json, IOUtils
Recs == JsonDeserialize(IOEnv.TRACE_FILE)
VARIABLES tid, ch
vars == <<tid, ch>>
R == Recs[tid]
Init == tid \in 1..Len(Recs) /\ ch = 1
Next == ch < Len(R.chains) /\ ch' = ch + 1 /\ UNCHANGED tid
Spec == Init /\ [][Next]_vars
Pid == IF R.m = 2 THEN "C01" ELSE "C02"
Fail(c) == PrintT(<<"FAIL", Pid, tid, ch, c>>) /\ FALSE
Ok == ~R.raised
NoException == Ok \/ Fail("NoException")
Val(p, a, b) == IF R.m = 2 THEN Prim2(p, a, b, 0, 0) ELSE IF R.m = 4 THEN Prim8(p, a, b, 0, 0) % 4 ELSE Prim8(p, a, b, 0, 0)
Expect(c, lane) == FoldLeft(LAMBDA acc, op : Val(op[1], acc, IF op[2] = 0 THEN 0 ELSE R.side[op[2]][lane]), c.inp[lane], c.ops)
ChainIsFold == (Ok => LET c == R.chains[ch] IN \A lane \in 1..R.lanes : c.got[lane] = Expect(c, lane)) \/ Fail("ChainIsFold")
=============================================================================
