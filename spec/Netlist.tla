------------------------------ MODULE Netlist ------------------------------
(***************************************************************************)
(* Meaning of a netlist (layer V), independent of kyupy's simulators.      *)
(* A structure is the record produced by harness/project.py from a live    *)
(* Circuit (public attributes only):                                       *)
(*   nodes  <<[name, kind, ins, outs]>>  ins/outs = 0-based line numbers,  *)
(*                                       -1 = unconnected pin              *)
(*   lines  <<[drv, dpin, rdr, rpin]>>   0-based node numbers / pins       *)
(*   io     <<node numbers>>             ports in port order               *)
(*   seq    <<0|1|2>> per node           1 = flip-flop, 2 = latch          *)
(*   topo   <<node numbers>>             an order computed by the harness; *)
(*                                       it is CHECKED here (TopoOK)       *)
(* Interface cut (DESIGN §5.2): every port and every state element is an   *)
(* interface element.  Its outputs carry the value ASSIGNED to it (second  *)
(* output of a flip-flop inverted), its input pin 0 is what is CAPTURED.   *)
(* The interface order is: ports in port order, flip-flops in node order,  *)
(* latches in node order.                                                  *)
(* Evaluation is a fold over the checked order: linear, no recursion       *)
(* through reconvergent paths.  Eval(st, m, asg) gives the value of every  *)
(* line: m = 2 (bits 0/1), 4 or 8 (codes of Logic.tla).                    *)
(***************************************************************************)
EXTENDS Prims, SequencesExt
FORK == "__fork__"
NNodes(st) == Len(st.nodes)
NLinesOf(st) == Len(st.lines)
NodeOf(st, n) == st.nodes[n + 1]
IsFF(st, n) == st.seq[n + 1] = 1
IsLatch(st, n) == st.seq[n + 1] = 2
IoSet(st) == {st.io[i] : i \in 1..Len(st.io)}
\* interface elements in interface order
FFs(st) == SelectSeq([i \in 1..NNodes(st) |-> i - 1], LAMBDA n : IsFF(st, n))
Latches(st) == SelectSeq([i \in 1..NNodes(st) |-> i - 1], LAMBDA n : IsLatch(st, n))
SNodes(st) == st.io \o FFs(st) \o Latches(st)
SSet(st) == {SNodes(st)[i] : i \in 1..Len(SNodes(st))}
SIdx(st, n) == CHOOSE i \in 1..Len(SNodes(st)) : SNodes(st)[i] = n
ConnIns(st, n) == {x \in {NodeOf(st, n).ins[j] : j \in 1..Len(NodeOf(st, n).ins)} : x >= 0}
DriverOf(st, x) == st.lines[x + 1].drv
\* the harness' order is a topological order of the cut graph: every node once; a non-interface node after all
\* drivers of its connected input pins
Pos(st, n) == CHOOSE i \in 1..Len(st.topo) : st.topo[i] = n
TopoOK(st) == /\ Len(st.topo) = NNodes(st)
              /\ {st.topo[i] : i \in 1..Len(st.topo)} = 0..(NNodes(st) - 1)
              /\ \A n \in 0..(NNodes(st) - 1) : n \notin SSet(st) =>
                    \A x \in ConnIns(st, n) : Pos(st, DriverOf(st, x)) < Pos(st, n)

\* value read at input pin j (0-based) of node nd under line valuation v; an unconnected pin reads constant 0
PinVal(nd, j, v) == IF j + 1 > Len(nd.ins) THEN 0 ELSE IF nd.ins[j + 1] < 0 THEN 0 ELSE v[nd.ins[j + 1] + 1]
Inv(m, a) == IF m = 2 THEN 1 - a ELSE IF m = 4 THEN Not8(a) % 4 ELSE Not8(a)
GateVal(m, nd, v) ==
    LET p == PrimOf(nd.kind, nd.ins)
        a == PinVal(nd, 0, v)  b == PinVal(nd, 1, v)  c == PinVal(nd, 2, v)  d == PinVal(nd, 3, v)
    IN IF m = 2 THEN Prim2(p, a, b, c, d) ELSE IF m = 4 THEN Prim8(p, a, b, c, d) % 4 ELSE Prim8(p, a, b, c, d)
\* asg: value assigned to each interface element, indexed like SNodes(st).
\* EvalO additionally forces line ovl (0-based; -1 = none) to the value ovv AFTER it has been computed - the
\* meaning of "that signal is driven with the overwritten values" (C16): downstream sees ovv, upstream does not.
EvalO(st, m, asg, ovl, ovv) ==
  LET nl == NLinesOf(st)
      sn == SNodes(st)                                   \* (bound once per evaluation, not once per node)
      sset == {sn[i] : i \in 1..Len(sn)}
      sidx(n) == CHOOSE i \in 1..Len(sn) : sn[i] = n
      step(v, n) ==
        LET nd == NodeOf(st, n)
            isS == n \in sset
            base == IF isS THEN asg[sidx(n)]
                    ELSE IF nd.kind = FORK THEN PinVal(nd, 0, v)
                    ELSE GateVal(m, nd, v)
            \* interface elements and forks drive every connected output pin, gates only pin 0;
            \* the second output of a flip-flop is inverted
            put(vv, k) == IF nd.outs[k] >= 0 /\ (isS \/ nd.kind = FORK \/ k = 1)
                          THEN [vv EXCEPT ![nd.outs[k] + 1] =
                                   IF nd.outs[k] = ovl THEN ovv
                                   ELSE IF isS /\ IsFF(st, n) /\ k = 2 THEN Inv(m, base) ELSE base]
                          ELSE vv
        IN FoldLeft(put, v, [k \in 1..Len(nd.outs) |-> k])
  IN FoldLeft(step, [i \in 1..nl |-> 0], st.topo)
Eval(st, m, asg) == EvalO(st, m, asg, -1, 0)
\* The plain reading at DRIVEN PORTS (not the simulators' convention, see DESIGN 11.6): a port that has a driver is an ordinary
\* signal - its readers see what the driver computes, not the assigned value.  st.topon: an order valid for this reading.
DrivenPort(st, n) == n \in IoSet(st) /\ Len(NodeOf(st, n).ins) > 0 /\ NodeOf(st, n).ins[1] >= 0
EvalN(st, m, asg) ==
  LET nl == NLinesOf(st)
      sn == SNodes(st)
      sset == {sn[i] : i \in 1..Len(sn)}
      sidx(n) == CHOOSE i \in 1..Len(sn) : sn[i] = n
      step(v, n) ==
        LET nd == NodeOf(st, n)
            isS == n \in sset /\ ~DrivenPort(st, n)
            base == IF isS THEN asg[sidx(n)]
                    ELSE IF nd.kind = FORK \/ n \in sset THEN PinVal(nd, 0, v)
                    ELSE GateVal(m, nd, v)
            put(vv, k) == IF nd.outs[k] >= 0 /\ (n \in sset \/ nd.kind = FORK \/ k = 1)
                          THEN [vv EXCEPT ![nd.outs[k] + 1] = IF isS /\ IsFF(st, n) /\ k = 2 THEN Inv(m, base) ELSE base]
                          ELSE vv
        IN FoldLeft(put, v, [k \in 1..Len(nd.outs) |-> k])
  IN FoldLeft(step, [i \in 1..nl |-> 0], st.topon)
TopoNOK(st) == /\ Len(st.topon) = NNodes(st)
               /\ {st.topon[i] : i \in 1..Len(st.topon)} = 0..(NNodes(st) - 1)
               /\ \A n \in 0..(NNodes(st) - 1) : (n \notin SSet(st) \/ DrivenPort(st, n)) =>
                     \A x \in ConnIns(st, n) : (CHOOSE i \in 1..Len(st.topon) : st.topon[i] = DriverOf(st, x)) < (CHOOSE i \in 1..Len(st.topon) : st.topon[i] = n)
\* what is captured at interface element i (1-based position in SNodes): the value at its input pin 0
HasCapture(st, i) == LET nd == NodeOf(st, SNodes(st)[i]) IN Len(nd.ins) > 0 /\ nd.ins[1] >= 0
Captured(st, v, i) == v[NodeOf(st, SNodes(st)[i]).ins[1] + 1]
\* next-state function: ports keep their assignment, state elements take what they captured (if anything)
NPorts(st) == Len(st.io)
NextAsg(st, m, asg) == LET v == Eval(st, m, asg) IN
    [i \in 1..Len(asg) |-> IF i > NPorts(st) /\ HasCapture(st, i) THEN Captured(st, v, i) ELSE asg[i]]
RECURSIVE IterAsg(_, _, _, _)
IterAsg(st, m, asg, k) == IF k = 0 THEN asg ELSE IterAsg(st, m, NextAsg(st, m, asg), k - 1)
\* inside the domain of the simulators: known kinds, gates drive only output pin 0
InDomain(st) == \A n \in 0..(NNodes(st) - 1) :
                   n \in SSet(st) \/ NodeOf(st, n).kind = FORK \/ Fam(NodeOf(st, n).kind) # "?"

(***************************************************************************)
(* Transparent / hierarchical meaning, used where the NETLIST ITSELF is    *)
(* the object (C10, C11, C19) rather than the simulators' interface cut:   *)
(*  - sources are the input ports (ports whose pin 0 is not connected) and *)
(*    the state elements; a port that has a driver is an ordinary signal;  *)
(*  - observed are the ports that have a driver (value at their pin 0) and *)
(*    the next-state inputs (pin 0) of the state elements;                 *)
(*  - a node whose kind is a field of `lib` is an INSTANCE of the cell     *)
(*    implementation lib[kind] (a structure made of primitives only): its  *)
(*    input pin j feeds the j-th input port of the implementation, its     *)
(*    output pin k carries the k-th driven port; unconnected instance      *)
(*    pins read 0.  An implementation containing a flip-flop or latch      *)
(*    makes the instance a state element of the host.                      *)
(***************************************************************************)
HasIn0(nd) == Len(nd.ins) > 0 /\ nd.ins[1] >= 0
InPorts(st) == SelectSeq(st.io, LAMBDA n : ~HasIn0(NodeOf(st, n)))
OutPorts(st) == SelectSeq(st.io, LAMBDA n : HasIn0(NodeOf(st, n)))
SeqNodes(st) == FFs(st) \o Latches(st)
\* flat transparent evaluation: srcv = values of InPorts(st) \o SeqNodes(st), in that order
FlatSources(st) == InPorts(st) \o SeqNodes(st)
EvalT(st, srcv) ==
  LET nl == NLinesOf(st)
      src == FlatSources(st)
      srcset == {src[i] : i \in 1..Len(src)}
      idx(n) == CHOOSE i \in 1..Len(src) : src[i] = n
      step(v, n) ==
        LET nd == NodeOf(st, n)
            isS == n \in srcset
            passive == nd.kind \in {FORK, "input", "output"} \/ n \in IoSet(st)      \* named signals and port cells copy pin 0
            base == IF isS THEN srcv[idx(n)]
                    ELSE IF passive THEN PinVal(nd, 0, v)
                    ELSE GateVal(2, nd, v)
            put(vv, k) == IF nd.outs[k] >= 0 /\ (isS \/ passive \/ k = 1)
                          THEN [vv EXCEPT ![nd.outs[k] + 1] = IF isS /\ IsFF(st, n) /\ k = 2 THEN 1 - base ELSE base]
                          ELSE vv
        IN FoldLeft(put, v, [k \in 1..Len(nd.outs) |-> k])
  IN FoldLeft(step, [i \in 1..nl |-> 0], st.topo)
\* observed values: driven ports, then next-state inputs of the state elements
ObsT(st, v) == [i \in 1..Len(OutPorts(st)) |-> v[NodeOf(st, OutPorts(st)[i]).ins[1] + 1]]
               \o [i \in 1..Len(SeqNodes(st)) |-> LET nd == NodeOf(st, SeqNodes(st)[i]) IN IF HasIn0(nd) THEN v[nd.ins[1] + 1] ELSE 0]
\* a cell implementation as a function: inputs by pin, state q -> <<outputs by pin>> and next state
CellSeq(impl) == Len(SeqNodes(impl)) > 0
CellV(impl, inv, q) == EvalT(impl, [i \in 1..Len(FlatSources(impl)) |->
                                     IF i <= Len(InPorts(impl)) THEN (IF i <= Len(inv) THEN inv[i] ELSE 0) ELSE q])
CellOuts(impl, inv, q) == LET v == CellV(impl, inv, q) IN
                          [k \in 1..Len(OutPorts(impl)) |-> v[NodeOf(impl, OutPorts(impl)[k]).ins[1] + 1]]
CellNext(impl, inv, q) == LET v == CellV(impl, inv, q)
                              nd == NodeOf(impl, SeqNodes(impl)[1]) IN IF HasIn0(nd) THEN v[nd.ins[1] + 1] ELSE 0
\* hierarchical transparent evaluation of a host with instances of lib cells
IsInst(lib, nd) == nd.kind \in DOMAIN lib
InstSeq(st, lib) == SelectSeq([i \in 1..NNodes(st) |-> i - 1], LAMBDA n : IsInst(lib, NodeOf(st, n)) /\ CellSeq(lib[NodeOf(st, n).kind]))
\* state elements of the host in interface order: flip-flop-like first, then latch-like (plain nodes and instances, node order)
SeqKind(st, lib, n) == LET nd == NodeOf(st, n) IN
                       IF IsInst(lib, nd) THEN (IF Len(FFs(lib[nd.kind])) > 0 THEN 1 ELSE IF Len(Latches(lib[nd.kind])) > 0 THEN 2 ELSE 0)
                       ELSE st.seq[n + 1]
HSeq(st, lib) == SelectSeq([i \in 1..NNodes(st) |-> i - 1], LAMBDA n : SeqKind(st, lib, n) = 1)
                 \o SelectSeq([i \in 1..NNodes(st) |-> i - 1], LAMBDA n : SeqKind(st, lib, n) = 2)
HSources(st, lib) == InPorts(st) \o HSeq(st, lib)
InstIn(nd, v) == [j \in 1..Len(nd.ins) |-> IF nd.ins[j] >= 0 THEN v[nd.ins[j] + 1] ELSE 0]
EvalH(st, lib, srcv) ==
  LET nl == NLinesOf(st)
      src == HSources(st, lib)
      srcset == {src[i] : i \in 1..Len(src)}
      idx(n) == CHOOSE i \in 1..Len(src) : src[i] = n
      step(v, n) ==
        LET nd == NodeOf(st, n)
            isS == n \in srcset
            inst == IsInst(lib, nd)
            passive == nd.kind \in {FORK, "input", "output"} \/ n \in IoSet(st)
            q == IF isS THEN srcv[idx(n)] ELSE 0
            outs == IF inst THEN CellOuts(lib[nd.kind], InstIn(nd, v), q) ELSE <<>>
            base == IF inst THEN 0 ELSE IF isS THEN q ELSE IF passive THEN PinVal(nd, 0, v) ELSE GateVal(2, nd, v)
            put(vv, k) == IF nd.outs[k] < 0 THEN vv
                          ELSE IF inst THEN [vv EXCEPT ![nd.outs[k] + 1] = IF k <= Len(outs) THEN outs[k] ELSE 0]
                          ELSE IF isS \/ passive \/ k = 1
                          THEN [vv EXCEPT ![nd.outs[k] + 1] = IF isS /\ st.seq[n + 1] = 1 /\ k = 2 THEN 1 - base ELSE base]
                          ELSE vv
        IN FoldLeft(put, v, [k \in 1..Len(nd.outs) |-> k])
  IN FoldLeft(step, [i \in 1..nl |-> 0], st.topo)
ObsH(st, lib, srcv, v) ==
   [i \in 1..Len(OutPorts(st)) |-> v[NodeOf(st, OutPorts(st)[i]).ins[1] + 1]]
   \o [i \in 1..Len(HSeq(st, lib)) |->
         LET n == HSeq(st, lib)[i]  nd == NodeOf(st, n) IN
         IF IsInst(lib, nd) THEN CellNext(lib[nd.kind], InstIn(nd, v), srcv[Len(InPorts(st)) + i])
         ELSE IF HasIn0(nd) THEN v[nd.ins[1] + 1] ELSE 0]
NameOf(st, n) == NodeOf(st, n).name
=============================================================================
