SPECIFICATION Spec
INVARIANT NoException
INVARIANT WiresAreFolded
INVARIANT ViasAreFolded
INVARIANT SecHeader
INVARIANT SecUnits
INVARIANT SecDie
INVARIANT SecRows
INVARIANT SecTracks
INVARIANT SecVias
INVARIANT SecComp
INVARIANT SecPins
INVARIANT SecNets
INVARIANT SecSpNets
CHECK_DEADLOCK FALSE
