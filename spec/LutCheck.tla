------------------------------ MODULE LutCheck ------------------------------
(* Published-data verdict (C01): every look-up constant published by kyupy.sim is the table of the Boolean   *)
(* function of the primitive of that name, and all 33 primitives are published.  Data: << <<name, value>> >> *)
EXTENDS Prims, TLC, Json, IOUtils
Luts == JsonDeserialize(IOEnv.TRACE_FILE)
VARIABLE i
Init == i \in 1..Len(Luts)
Next == UNCHANGED i
Spec == Init /\ [][Next]_i
Fail(c) == PrintT(<<"FAIL", "C01", i, 0, c>>) /\ FALSE
LutIsFunction == (Luts[i][1] \in PRIMS /\ LutOf(Luts[i][1]) = Luts[i][2]) \/ Fail("LutIsFunction")
AllPublished == ({Luts[j][1] : j \in 1..Len(Luts)} = PRIMS) \/ Fail("AllPublished")
=============================================================================
