SPECIFICATION Spec
INVARIANT NoException
INVARIANT IndexIsPosition
INVARIANT NameMaps
INVARIANT BackRefs
INVARIANT ForksGapFree
INVARIANT PortsInCircuit
INVARIANT Stats
INVARIANT CloneIdentical
CHECK_DEADLOCK FALSE
