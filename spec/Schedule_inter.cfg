SPECIFICATION SpecInterleave
INVARIANT ReadsValid
INVARIANT RaceFree
INVARIANT OutputsMapped
INVARIANT LevelsPartition
INVARIANT Pinned
INVARIANT WithinCLen
INVARIANT AliasExact
INVARIANT InputsDisjoint
CHECK_DEADLOCK FALSE
