SPECIFICATION SpecInterleave
INVARIANT ReadsValid
INVARIANT RaceFree
INVARIANT OutputsMapped
INVARIANT ResultApartFromOperands
INVARIANT LevelsPartition
INVARIANT Pinned
INVARIANT WithinCLen
INVARIANT AliasExact
INVARIANT InputsDisjoint
INVARIANT ScratchPrivate
CHECK_DEADLOCK FALSE
