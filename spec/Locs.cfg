SPECIFICATION Spec
INVARIANT NoException
INVARIANT LocsAreBuses
CHECK_DEADLOCK FALSE
