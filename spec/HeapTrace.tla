----------------------------- MODULE HeapTrace -----------------------------
(***************************************************************************)
(* Conformance (layer C, DRIFT only): the concrete model Heap.tla is       *)
(* driven with the same calls as a recorded history of the real            *)
(* kyupy.sim.Heap; after every call the model's tables must equal the      *)
(* logged ones.  Also counts which code branch each call took.             *)
(***************************************************************************)
EXTENDS Heap, Json, IOUtils
Traces == JsonDeserialize(IOEnv.TRACE_FILE)
VARIABLES tid, l
tvars == <<vars, tid, l>>
TInit == Init /\ tid \in 1..Len(Traces) /\ l = 0
Ev == Traces[tid][l + 1]
TStep == /\ l < Len(Traces[tid])
         /\ ~Ev.raised
         /\ l' = l + 1 /\ tid' = tid
         /\ IF Ev.op = "alloc" THEN Alloc(Ev.size) ELSE Free(Ev.loc)
TSpec == TInit /\ [][TStep]_tvars
Prev == Traces[tid][l]
ChunksAsSeq == LET S == SetToSortSeq(DOMAIN chunks, <) IN [i \in 1..Len(S) |-> <<S[i], chunks[S[i]]>>]
Drift(c) == PrintT(<<"DRIFT", "C08", tid, l, c>>) /\ FALSE
Conform == (l >= 1 =>
              /\ ChunksAsSeq = Prev.chunks
              /\ released = Prev.released
              /\ cursz = Prev.cur /\ maxsz = Prev.max
              /\ (Prev.op = "alloc" => last[3] = Prev.loc)) \/ Drift("Conform")
\* branch taken by the model for call l (reported once per trace step; harness counts the tags)
Tag == l >= 1 => PrintT(<<"INFO", "tag", IF last[1] = "alloc" THEN last[4] ELSE last[3]>>)
=============================================================================
