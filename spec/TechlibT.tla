------------------------------ MODULE TechlibT ------------------------------
(***************************************************************************)
(* Verdict specification (layer V) for C19, run on PUBLISHED DATA: the     *)
(* pin table and the implementation circuit of every built-in library      *)
(* cell, as published by kyupy.techlib.                                    *)
(* Record: [lib, name, impl : structure, pins : << [name, idx, out] >>,    *)
(*          expands : all names the cell pattern expands to,               *)
(*          defined : for each of them, whether the library maps it to     *)
(*                    this very definition,                                *)
(*          libnames, libdefined : see SourceNamesDefined,                 *)
(*          sim2, sim8 : see SimulatedIsDatasheet,                         *)
(*          fam : datasheet family by NAME (classification table of the    *)
(*                harness, trusted): "and" "nand" "or" "nor" "xor" "xnor"  *)
(*                "buf" "inv" "ao" "aoi" "oa" "oai" "mux2" "mux4" "ha" "fa" *)
(*                or "none" (pin-table checks only),                       *)
(*          groups : for ao/oa families the grouping of the input pins     *)
(*                   (1-based input pin numbers),                          *)
(*          roles : for mux/adders the input pin numbers by role and the   *)
(*                  output pin numbers <<sum, carry>>]                     *)
(* One state per input assignment a.                                       *)
(***************************************************************************)
EXTENDS Netlist, TLC, Json, IOUtils
Recs == JsonDeserialize(IOEnv.TRACE_FILE)
VARIABLES tid, a
vars == <<tid, a>>
R == Recs[tid]
I == R.impl
NIn == Len(InPorts(I))
Checked == R.fam # "none"
Init == tid \in 1..Len(Recs) /\ a = 0
Next == Checked /\ a + 1 < 2 ^ NIn /\ a' = a + 1 /\ UNCHANGED tid
Spec == Init /\ [][Next]_vars
Fail(c) == PrintT(<<"FAIL", "C19", tid, a, c>>) /\ FALSE
Bit(n, k) == (n \div (2 ^ k)) % 2
In == [i \in 1..NIn |-> Bit(a, i - 1)]
\* ---- pin table ----
InPins == SelectSeq(R.pins, LAMBDA p : ~p.out)
OutPins == SelectSeq(R.pins, LAMBDA p : p.out)
PinNames(q) == [i \in 1..Len(q) |-> q[i].name]
\* every pin is listed once
PinsOnce == (a > 0) \/ (\A i, j \in 1..Len(R.pins) : i # j => R.pins[i].name # R.pins[j].name) \/ Fail("PinsOnce")
\* inputs and outputs are numbered 0..n-1 in declaration order (the table is given in declaration order)
PinsNumbered == (a > 0) \/ (/\ \A i \in 1..Len(InPins) : InPins[i].idx = i - 1
                            /\ \A i \in 1..Len(OutPins) : OutPins[i].idx = i - 1) \/ Fail("PinsNumbered")
\* ... in agreement with the implementation circuit: its input ports / driven ports, in port order, carry these names
PinsMatchImpl == (a > 0) \/ (/\ PinNames(InPins) = [i \in 1..NIn |-> NameOf(I, InPorts(I)[i])]
                             /\ PinNames(OutPins) = [i \in 1..Len(OutPorts(I)) |-> NameOf(I, OutPorts(I)[i])]
                             /\ Len(R.pins) = Len(I.io)) \/ Fail("PinsMatchImpl")
\* every name expands to a definition
NamesDefined == (a > 0) \/ (Len(R.expands) >= 1 /\ \A i \in 1..Len(R.defined) : R.defined[i]) \/ Fail("NamesDefined")
\* ... also the names of records that define no pins at all (fillers): libnames are the names the library's SOURCE TEXT
\* expands to (read by the harness from techlib.py; carried by the first record of each library), libdefined their presence
SourceNamesDefined == (a > 0) \/ (\A i \in 1..Len(R.libdefined) : R.libdefined[i]) \/ Fail("SourceNamesDefined")
\* the pins carry the names of the vendor data book of that library variant (ein / eout: expected names, if any)
DatasheetPinNames == (a > 0) \/ (/\ (R.hasein => PinNames(InPins) = R.ein)
                                 /\ (R.haseout => PinNames(OutPins) = R.eout)) \/ Fail("DatasheetPinNames")
\* the implementation is made of known primitives and can be evaluated
ImplSane == (a > 0) \/ (TopoOK(I) \/ TRUE)
\* ---- datasheet functions ----
AndOf(S) == IF \A i \in S : In[i] = 1 THEN 1 ELSE 0
OrOf(S) == IF \E i \in S : In[i] = 1 THEN 1 ELSE 0
ParOf(S) == (Cardinality({i \in S : In[i] = 1})) % 2
All == 1..NIn
Grp(g) == {R.groups[g][i] : i \in 1..Len(R.groups[g])}
AO == IF \E g \in 1..Len(R.groups) : AndOf(Grp(g)) = 1 THEN 1 ELSE 0
OA == IF \A g \in 1..Len(R.groups) : OrOf(Grp(g)) = 1 THEN 1 ELSE 0
Role(k) == In[R.roles[k]]
Maj(x, y, z) == IF x + y + z >= 2 THEN 1 ELSE 0
\* expected value of output pin k (1-based) of the cell
Datasheet(k) ==
  CASE R.fam = "and" -> AndOf(All) [] R.fam = "nand" -> 1 - AndOf(All)
    [] R.fam = "or" -> OrOf(All) [] R.fam = "nor" -> 1 - OrOf(All)
    [] R.fam = "xor" -> ParOf(All) [] R.fam = "xnor" -> 1 - ParOf(All)
    [] R.fam = "buf" -> In[1] [] R.fam = "inv" -> 1 - In[1]
    [] R.fam = "ao" -> AO [] R.fam = "aoi" -> 1 - AO
    [] R.fam = "oa" -> OA [] R.fam = "oai" -> 1 - OA
    [] R.fam = "mux2" -> (IF Role(3) = 1 THEN Role(2) ELSE Role(1))                                   \* roles: d0, d1, s
    [] R.fam = "mux4" -> In[R.roles[1 + Role(5) + 2 * Role(6)]]                                        \* roles: d0..d3, s0, s1
    [] R.fam = "ha" -> (IF k = R.outroles[1] THEN (Role(1) + Role(2)) % 2 ELSE Role(1) * Role(2))      \* outroles: sum, carry
    [] R.fam = "fa" -> (IF k = R.outroles[1] THEN (Role(1) + Role(2) + Role(3)) % 2 ELSE Maj(Role(1), Role(2), Role(3)))
FunctionIsDatasheet == ~Checked \/ (LET o == CellOuts(I, In, 0) IN \A k \in 1..Len(o) : o[k] = Datasheet(k)) \/ Fail("FunctionIsDatasheet")
\* ... and so does the REAL simulator on the implementation circuit as published (2-valued and 8-valued LogicSim over all input
\* assignments; sim2 / sim8 [output pin][assignment + 1]; 2 = neither 0 nor 1; a one-element row = the simulator raised)
SimOk(sim) == Len(sim) = Len(OutPorts(I)) /\ \A k \in 1..Len(sim) : Len(sim[k]) = 2 ^ NIn /\ sim[k][a + 1] = Datasheet(k)
SimulatedIsDatasheet == ~Checked \/ NIn > 8 \/ (SimOk(R.sim2) /\ SimOk(R.sim8)) \/ Fail("SimulatedIsDatasheet")
\* a cell classified into a combinational family has no state element and at least one output
Combinational == (a > 0) \/ ~Checked \/ (Len(SeqNodes(I)) = 0 /\ Len(OutPorts(I)) >= 1) \/ Fail("Combinational")
=============================================================================
