SPECIFICATION Spec
INVARIANT NoException
INVARIANT IoPathsLand
INVARIANT InterconnectsLand
INVARIANT EntryHasLine
INVARIANT EntriesHaveLines
CHECK_DEADLOCK FALSE
