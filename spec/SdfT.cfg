SPECIFICATION Spec
INVARIANT NoException
INVARIANT IoPathsLand
INVARIANT InterconnectsLand
INVARIANT EntriesHaveLines
CHECK_DEADLOCK FALSE
