----------------------------- MODULE LogicSimT -----------------------------
(***************************************************************************)
(* Verdict trace specification (layer V) for C01 and C02: observations of  *)
(* the REAL kyupy.logic_sim.LogicSim against the meaning of the netlist    *)
(* (Netlist.Eval - it never looks at ops, c_locs or the propagation code). *)
(* One record per (circuit, options, code path); one state per lane.       *)
(*  rec.st      structure (+ seq, topo)       rec.m      2 | 4 | 8         *)
(*  rec.lanes   number of simulated patterns                               *)
(*  rec.stim[i][p], rec.resp[i][p]   assigned / captured code of interface *)
(*              element i (order of the simulator's s array) in lane p     *)
(*  rec.respB   captured codes of a second run whose padding lanes (bits   *)
(*              beyond `lanes` in the last byte) were filled differently   *)
(*  rec.cyc     << [k, s0] >> : s[0] rows after cycle(k) (2-valued only)   *)
(*  rec.raised  the simulator raised an exception                          *)
(***************************************************************************)
EXTENDS Netlist, TLC, Json, IOUtils
Recs == JsonDeserialize(IOEnv.TRACE_FILE)
VARIABLES tid, p
vars == <<tid, p>>
R == Recs[tid]
St == R.st
Init == tid \in 1..Len(Recs) /\ p = 1
Next == p < R.lanes /\ p' = p + 1 /\ UNCHANGED tid
Spec == Init /\ [][Next]_vars
Fail(pid, c) == PrintT(<<"FAIL", pid, tid, p, c>>) /\ FALSE
Pid == IF R.m = 2 THEN "C01" ELSE "C02"
NS == Len(SNodes(St))
Asg == [i \in 1..NS |-> R.stim[i][p]]
Ok == ~R.raised
\* machinery sanity: the harness' order is a topological order and all kinds are known to the specification
Sane == (p > 1) \/ (TopoOK(St) /\ InDomain(St) /\ (Ok => Len(R.stim) = NS)) \/ Fail("MACHINERY", "Sane")
NoException == Ok \/ Fail(Pid, "NoException")
\* every captured value is the value the netlist gives to that pin
CapturedIsEval == (Ok => LET v == Eval(St, R.m, Asg) IN
                     \A i \in 1..NS : HasCapture(St, i) => R.resp[i][p] = Captured(St, v, i)) \/ Fail(Pid, "CapturedIsEval")
\* KNOWN FINDING (DESIGN 11.6): under the plain reading of "gate by gate" a port that has a driver is an ordinary signal; the
\* simulators feed its readers from the assigned value instead.  Judged for 2-valued runs of circuits that have such a port.
HasTopoN == "topon" \in DOMAIN St
DrivenPortsAreSignals == (Ok /\ R.m = 2 /\ HasTopoN /\ TopoNOK(St) =>
                            LET v == EvalN(St, 2, Asg) IN
                            \A i \in 1..NS : HasCapture(St, i) => R.resp[i][p] = Captured(St, v, i)) \/ Fail("C01", "DrivenPortsAreSignals")
\* lanes beyond the number of patterns in the last byte do not influence any pattern
PaddingIndependent == (Ok => \A i \in 1..NS : HasCapture(St, i) => R.resp[i][p] = R.respB[i][p]) \/ Fail(Pid, "PaddingIndependent")
\* C01: k cycles = next-state function applied k times with the primary inputs held
\* (C02: in 4-valued mode the state transfer is the same copy of the captured value; the 8-valued transfer is not claimed)
CycleIsNextState == (Ok /\ R.m \in {2, 4} =>
                       \A c \in 1..Len(R.cyc) : LET a == IterAsg(St, R.m, Asg, R.cyc[c].k) IN
                           \A i \in 1..NS : R.cyc[c].s0[i][p] = a[i]) \/ Fail(Pid, "CycleIsNextState")      \* ports: inputs held
\* C02: a 0/1 result is never contradicted by a 0/1 completion of the unknown/unassigned inputs (observed lanes)
Completes(q) == \A i \in 1..NS : R.stim[i][q] \in Compl(R.stim[i][p])
XSound == (Ok /\ R.m > 2 =>
             \A q \in 1..R.lanes : Completes(q) =>
                 \A i \in 1..NS : (HasCapture(St, i) /\ R.resp[i][p] \in {ZERO, ONE}) => R.resp[i][q] = R.resp[i][p]) \/ Fail("C02", "XSound")
\* C02: initial and final components of an 8-valued result = 2-valued meaning of the components (known stimuli)
AllKnown == \A i \in 1..NS : Known(R.stim[i][p])
Proj8To2 == (Ok /\ R.m = 8 /\ AllKnown =>
               LET vi == Eval(St, 2, [i \in 1..NS |-> Ini(R.stim[i][p])])
                   vf == Eval(St, 2, [i \in 1..NS |-> Fin(R.stim[i][p])])
               IN \A i \in 1..NS : HasCapture(St, i) =>
                     /\ Known(R.resp[i][p])
                     /\ Ini(R.resp[i][p]) = Captured(St, vi, i)
                     /\ Fin(R.resp[i][p]) = Captured(St, vf, i)) \/ Fail("C02", "Proj8To2")
=============================================================================
