-------------------------------- MODULE DefT --------------------------------
(***************************************************************************)
(* Verdict specification (layer V) for C20.                                *)
(* kind = "net": routed geometry of one net.  The routing of a wire is a   *)
(* cursor machine: the first point sets the cursor; a point moves it, a    *)
(* '*' coordinate (sent as -1) keeps the previous value (an optional third *)
(* number, the extension, stays with its point); a via is placed          *)
(* at the cursor with its orientation (default N); a via array             *)
(* DO nx BY ny STEP sx sy is placed at all nx x ny positions.  The per     *)
(* layer wire listing holds, wire by wire, the width and the resolved      *)
(* points (wires consisting of a single point have no geometry); the per   *)
(* via-type listing holds the positions in order of occurrence.            *)
(*   wires  << [layer, width (-1 = none), elems << [v = FALSE, x, y] |     *)
(*             [v = TRUE, name, orient, do] >> ] >>                        *)
(*   layers, vtypes : distinct layers / via types in the order of the      *)
(*             returned listings;  gotw[l] = << <<width, << <<x,y>> >> >> >> *)
(*             gotv[t] = << <<x, y, orient>> >>                            *)
(* kind = "sections": the extracted design data (units, die area, rows,    *)
(* tracks, via definitions, components, pins, connectivity) normalised by  *)
(* the harness, against the abstract file (exp vs got, field by field).    *)
(***************************************************************************)
EXTENDS Integers, Sequences, FiniteSets, TLC, Json, IOUtils, SequencesExt
Recs == JsonDeserialize(IOEnv.TRACE_FILE)
VARIABLE tid
Init == tid \in 1..Len(Recs)
Next == UNCHANGED tid
Spec == Init /\ [][Next]_tid
R == Recs[tid]
Fail(c) == PrintT(<<"FAIL", "C20", tid, 0, c>>) /\ FALSE
IsNet == R.kind = "net"
NoException == ~R.raised \/ Fail("NoException")
Res(c, prev) == IF c = -1 THEN prev ELSE c
\* cursor machine over the elements of one wire: state <<x, y, points, vias>>
StepEl(s, e) == IF e.v THEN
                    LET pos == IF Len(e.do) = 4
                               THEN [i \in 1..(e.do[1] * e.do[2]) |->
                                       <<e.name, s[1] + ((i - 1) \div e.do[2]) * e.do[3], s[2] + ((i - 1) % e.do[2]) * e.do[4], "N">>]
                               ELSE << <<e.name, s[1], s[2], IF e.orient = "" THEN "N" ELSE e.orient>> >>
                    IN <<s[1], s[2], s[3], s[4] \o pos>>
                ELSE LET x == Res(e.x, s[1])  y == Res(e.y, s[2]) IN <<x, y, Append(s[3], IF e.ext >= 0 THEN <<x, y, e.ext>> ELSE <<x, y>>), s[4]>>
First(w) == IF w.elems[1].ext >= 0 THEN <<w.elems[1].x, w.elems[1].y, w.elems[1].ext>> ELSE <<w.elems[1].x, w.elems[1].y>>
RunWire(w) == FoldLeft(StepEl, <<w.elems[1].x, w.elems[1].y, <<First(w)>>, <<>>>>, Tail(w.elems))
WirePoints(w) == LET p == RunWire(w)[3] IN IF Len(p) > 1 THEN p ELSE <<>>
ExpW(layer) == LET ws == SelectSeq(R.wires, LAMBDA w : w.layer = layer /\ Len(WirePoints(w)) > 0) IN
               [i \in 1..Len(ws) |-> <<ws[i].width, WirePoints(ws[i])>>]
AllVias == FoldLeft(LAMBDA acc, w : acc \o RunWire(w)[4], <<>>, R.wires)
ExpV(t) == LET vs == SelectSeq(AllVias, LAMBDA v : v[1] = t) IN [i \in 1..Len(vs) |-> <<vs[i][2], vs[i][3], vs[i][4]>>]
\* per-layer wire listing: '*' inherits the previous point's value
WiresAreFolded == (~IsNet \/ R.raised \/
                     (/\ {R.layers[i] : i \in 1..Len(R.layers)} = {w.layer : w \in {R.wires[k] : k \in {j \in 1..Len(R.wires) : Len(WirePoints(R.wires[j])) > 0}}}
                      /\ \A i \in 1..Len(R.layers) : R.gotw[i] = ExpW(R.layers[i]))) \/ Fail("WiresAreFolded")
\* per-type via listing: vias at the cursor, arrays expanded to all n x m positions
ViasAreFolded == (~IsNet \/ R.raised \/
                     (/\ {R.vtypes[i] : i \in 1..Len(R.vtypes)} = {AllVias[k][1] : k \in 1..Len(AllVias)}
                      /\ \A i \in 1..Len(R.vtypes) : R.gotv[i] = ExpV(R.vtypes[i]))) \/ Fail("ViasAreFolded")
\* extracted sections equal what the file states
Sec(f) == IsNet \/ R.raised \/ R.got[f] = R.exp[f]
SectionsAsWritten == (/\ Sec("header") /\ Sec("units") /\ Sec("diearea") /\ Sec("rows") /\ Sec("tracks") /\ Sec("vias")
                      /\ Sec("components") /\ Sec("pins") /\ Sec("nets") /\ Sec("specialnets")) \/ Fail("SectionsAsWritten")
SecField(f) == (Sec(f)) \/ Fail("Section:" \o f)
SecHeader == SecField("header")  SecUnits == SecField("units")  SecDie == SecField("diearea")  SecRows == SecField("rows")
SecTracks == SecField("tracks")  SecVias == SecField("vias")  SecComp == SecField("components")  SecPins == SecField("pins")
SecNets == SecField("nets")  SecSpNets == SecField("specialnets")
=============================================================================
