SPECIFICATION Spec
INVARIANT Sane
INVARIANT NoException
INVARIANT AfterWellFormed
INVARIANT NamesKept
INVARIANT Resolved
INVARIANT OnlyForksAdded
INVARIANT FuncKept
CHECK_DEADLOCK FALSE
