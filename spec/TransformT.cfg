SPECIFICATION Spec
INVARIANT Sane
INVARIANT NoException
INVARIANT AfterWellFormed
INVARIANT PortNamesKept
INVARIANT StateNamesKept
INVARIANT StateOrderKept
INVARIANT Resolved
INVARIANT OnlyForksAdded
INVARIANT FuncKept
CHECK_DEADLOCK FALSE
