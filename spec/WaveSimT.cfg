SPECIFICATION Spec
INVARIANT Sane
INVARIANT NoException
INVARIANT ImagesWellFormed
INVARIANT PortIsLine
INVARIANT PortWindowCoversLine
INVARIANT Functional
INVARIANT InStaWindow
INVARIANT OnGrid
INVARIANT MonotoneIfPolIndep
INVARIANT ShiftEquivariant
INVARIANT ScaleEquivariant
INVARIANT Abstracts8
INVARIANT CaptureFaithful
INVARIANT OvlClearMeansExact
INVARIANT BigHasNoOverflow
INVARIANT CountsMatch
CHECK_DEADLOCK FALSE
