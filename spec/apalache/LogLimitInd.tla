---------------------------- MODULE LogLimitInd ----------------------------
(***************************************************************************)
(* Unbounded safety of the message limiter (X03) with Apalache: the        *)
(* inductive invariant IndInv holds initially and is preserved by every    *)
(* step of LogLimit's actions for ANY limit n >= 0 and any number of       *)
(* messages - TLC checks the same properties only for limits 0..3 and 7    *)
(* messages.  The actions are LogLimit's, restated with type annotations   *)
(* and without the output sequence (WindowBound and OpenOutside do not     *)
(* read it).                                                               *)
(*   apalache-mc check --init=IndInv --inv=IndInv --length=1 LogLimitInd.tla   (step)  *)
(*   apalache-mc check --init=Init   --inv=IndInv --length=0 LogLimitInd.tla   (base)  *)
(*   apalache-mc check --init=IndInv --inv=Goal   --length=0 LogLimitInd.tla   (IndInv => WindowBound /\ OpenOutside) *)
(***************************************************************************)
EXTENDS Integers
VARIABLES
    \* @type: Int;
    limit,
    \* @type: Int;
    filtered,
    \* @type: Int;
    issued,
    \* @type: Bool;
    inwin,
    \* @type: Int;
    wn,
    \* @type: Int;
    wstart
Init == limit = -1 /\ filtered = 0 /\ issued = 0 /\ inwin = FALSE /\ wn = 0 /\ wstart = 0
Start(n) == /\ ~inwin
            /\ limit' = n /\ filtered' = 0 /\ inwin' = TRUE /\ wn' = n /\ wstart' = issued
            /\ UNCHANGED issued
Log == /\ issued' = issued + 1
       /\ IF limit = 0
          THEN filtered' = filtered + 1 /\ UNCHANGED limit
          ELSE /\ limit' = (IF limit > 0 THEN limit - 1 ELSE limit)
               /\ UNCHANGED filtered
       /\ UNCHANGED <<inwin, wn, wstart>>
Stop == /\ inwin
        /\ filtered' = 0 /\ limit' = -1 /\ inwin' = FALSE
        /\ UNCHANGED <<issued, wn, wstart>>
Next == (\E n \in Nat : Start(n)) \/ Log \/ Stop
Min(a, b) == IF a < b THEN a ELSE b
Max(a, b) == IF a > b THEN a ELSE b
WindowBound == inwin => (issued - wstart) - filtered = Min(issued - wstart, wn)
OpenOutside == ~inwin => limit = -1 /\ filtered = 0
Goal == WindowBound /\ OpenOutside
IndInv == /\ limit \in Int /\ filtered \in Int /\ issued \in Int /\ inwin \in BOOLEAN /\ wn \in Int /\ wstart \in Int
          /\ limit >= -1 /\ filtered >= 0 /\ wn >= 0 /\ wstart >= 0 /\ issued >= wstart
          /\ (~inwin => limit = -1 /\ filtered = 0)
          /\ (inwin => /\ limit = Max(wn - (issued - wstart), 0)
                       /\ filtered = Max((issued - wstart) - wn, 0))
=============================================================================
