------------------------------ MODULE LogLimit ------------------------------
(***************************************************************************)
(* Behaviour beyond the listed properties (X03): the message limiter of    *)
(* kyupy.Log, as the parsers use it -                                      *)
(*     with log.limit(n): ... log.warn(...) ...                            *)
(* Inside the window the first n messages are written, the others are      *)
(* counted; leaving the window writes ONE summary line "<k> more messages  *)
(* (filtered)." when k > 0 messages were held back, and lifts the limit.   *)
(* One action per public call (start_limit, log, stop_limit); windows are  *)
(* not nested (the context-manager use).                                   *)
(*                                                                         *)
(* Variables: limit (-1 = no limit, else messages still allowed),          *)
(* filtered (held back in this window), out (lines written: <<"m", id>>    *)
(* or <<"s", k>>), and history variables issued / inwin / wn / wstart (the  *)
(* limit of the open window and the number of messages issued before it)   *)
(* that only the properties read.                                          *)
(***************************************************************************)
EXTENDS Integers, Sequences
CONSTANTS MAXN,        \* limits 0..MAXN
          MAXMSG       \* messages issued in one behaviour (model bound)
VARIABLES limit, filtered, out, issued, inwin, wn, wstart
vars == <<limit, filtered, out, issued, inwin, wn, wstart>>
Init == limit = -1 /\ filtered = 0 /\ out = <<>> /\ issued = 0 /\ inwin = FALSE /\ wn = 0 /\ wstart = 0
Start(n) == /\ ~inwin
            /\ limit' = n /\ filtered' = 0 /\ inwin' = TRUE /\ wn' = n /\ wstart' = issued
            /\ UNCHANGED <<out, issued>>
Log == /\ issued' = issued + 1
       /\ IF limit = 0
          THEN filtered' = filtered + 1 /\ UNCHANGED <<out, limit>>
          ELSE /\ out' = Append(out, <<"m", issued + 1>>)
               /\ limit' = IF limit > 0 THEN limit - 1 ELSE limit
               /\ UNCHANGED filtered
       /\ UNCHANGED <<inwin, wn, wstart>>
Stop == /\ inwin
        /\ out' = IF filtered > 0 THEN Append(out, <<"s", filtered>>) ELSE out
        /\ filtered' = 0 /\ limit' = -1 /\ inwin' = FALSE
        /\ UNCHANGED <<issued, wn, wstart>>
Next == (\E n \in 0..MAXN : Start(n)) \/ (issued < MAXMSG /\ Log) \/ Stop
Spec == Init /\ [][Next]_vars
\* ---- properties of the design ----
Written == {i \in 1..Len(out) : out[i][1] = "m"}
Summaries == {i \in 1..Len(out) : out[i][1] = "s"}
RECURSIVE SumS(_)
SumS(S) == IF S = {} THEN 0 ELSE LET i == CHOOSE x \in S : TRUE IN out[i][2] + SumS(S \ {i})
\* every issued message is written, counted in a summary line, or pending in the open window
NothingLost == issued = Len(SelectSeq(out, LAMBDA e : e[1] = "m")) + SumS(Summaries) + filtered
\* messages appear in the order they were issued, each at most once
InOrder == \A i, j \in Written : i < j => out[i][2] < out[j][2]
\* outside a window nothing is held back
OpenOutside == ~inwin => limit = -1 /\ filtered = 0
\* a window with limit n writes exactly the first n messages issued in it and holds back the rest
Min(a, b) == IF a < b THEN a ELSE b
WindowBound == inwin => (issued - wstart) - filtered = Min(issued - wstart, wn)
\* a summary line is never empty and is written only when leaving a window
SummaryOnlyAtStop == [][Len(SelectSeq(out', LAMBDA e : e[1] = "s")) > Len(SelectSeq(out, LAMBDA e : e[1] = "s")) => inwin /\ ~inwin' /\ filtered > 0]_vars
=============================================================================
