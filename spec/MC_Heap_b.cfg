\* design run (M), thorough: sizes {1,2,3}, managed range <= 12, <= 6 live chunks
CONSTANTS SIZES = {1, 2, 3}
 MAXEND = 12
 MAXLIVE = 6
 MAXDEPTH = 0
SPECIFICATION Spec
CONSTRAINT Bound
VIEW View
INVARIANT Tiling
INVARIANT FreeLive
INVARIANT Sorted
INVARIANT Coalesced
INVARIANT HighWater
INVARIANT NoOverlapOnAlloc
INVARIANT WithinRange
CHECK_DEADLOCK FALSE
