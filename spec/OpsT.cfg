SPECIFICATION Spec
INVARIANT NoException
INVARIANT ResultIsAlgebra
INVARIANT OutReceives
INVARIANT ShapeIsBroadcast
CHECK_DEADLOCK FALSE
