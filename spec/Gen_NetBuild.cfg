CONSTANTS KINDS = {"nand2", "xor2", "inv1"}
 NIN = 2
 NFF = 1
 NGATES = 2
 OPEN = FALSE
SPECIFICATION Spec
INVARIANT Emit
CHECK_DEADLOCK FALSE
