\* behaviour generation (R): every distinct (canonical state, last edit) with an edit history reaching it
CONSTANTS
  NAMES = {"a", "b"}
  CELLKINDS = {"and"}
  MAXNODES = 3
  MAXLINES = 3
  MAXPIN = 2
  MAXDEPTH = 5
  SUBIMPLS = {}
SPECIFICATION Spec
INVARIANT EmitHist
VIEW View
CONSTRAINT DepthBound
CHECK_DEADLOCK FALSE
