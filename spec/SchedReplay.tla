---------------------------- MODULE SchedReplay ----------------------------
(***************************************************************************)
(* Verdict (layer V) of C07, second half: "Executing the operations of     *)
(* each level in any order, and the (simulation, operation) threads of a   *)
(* level in any interleaving as a GPU may, yields bit-identical signal     *)
(* memories and results."  Each record holds the observations of the REAL  *)
(* simulators: the sequential run and runs under TLC-generated orders      *)
(* (ThreadOrder.tla); an observation is the content of c (scratch slots    *)
(* masked), s and abuf, given as digests of the raw bytes.                 *)
(* Record: [seq |-> [c, s, a], runs |-> << [c, s, a, raised] ... >>]       *)
(***************************************************************************)
EXTENDS Integers, Sequences, TLC, Json, IOUtils
Recs == JsonDeserialize(IOEnv.TRACE_FILE)
VARIABLES tid, k
vars == <<tid, k>>
R == Recs[tid]
Init == tid \in 1..Len(Recs) /\ k = 1
Next == k < Len(R.runs) /\ k' = k + 1 /\ UNCHANGED tid
Spec == Init /\ [][Next]_vars
Fail(c) == PrintT(<<"FAIL", "C07", tid, k, c>>) /\ FALSE
Run == R.runs[k]
NoException == ~Run.raised \/ Fail("NoException")
SameMemory == (Run.raised \/ Run.c = R.seq.c) \/ Fail("SameMemory")
SameResults == (Run.raised \/ Run.s = R.seq.s) \/ Fail("SameResults")
SameActivity == (Run.raised \/ Run.a = R.seq.a) \/ Fail("SameActivity")
=============================================================================
