------------------------------ MODULE WaveSimT ------------------------------
(***************************************************************************)
(* Verdict trace specification (layer V) for the timing simulator at       *)
(* circuit level: C03 (Functional), C04 (STA window, rigid motion,         *)
(* monotone timestamps), C05 (8-valued abstraction), C13 (capture and      *)
(* activity counts).  A record holds observations of the REAL WaveSim /    *)
(* WaveSimCuda (and LogicSim for C05) on one circuit; one state per lane.  *)
(*  st, lanes         structure (interface cut, checked order), lanes      *)
(*  dl[x][ip][op]     delay entries of line x (dataset in use), grid ints  *)
(*  poldep            delays depend on transition polarity                 *)
(*  inw[i][p]         input image of interface element i in lane p         *)
(*  waves[x][p]       image of line x (empty sequence when not observed)   *)
(*  port[i][p], s[i][p] = <<s3, s4, s5, s6, s7, s10>>, T2 = 2 x capture time *)
(*  caps[x], pcaps[i] capacities of the line / port slots                  *)
(*  has               which optional observations are present              *)
(*  sh, sc            [d|f, waves, port] : runs with shifted / scaled input *)
(*  resp8[i][p]       captured 8-valued codes of LogicSim (C05)            *)
(*  big               [port] images with unlimited capacity (C13)          *)
(*  actrl[x] = <<acc, wr, wf>>, abuf[a][p]                                 *)
(***************************************************************************)
EXTENDS Netlist, WaveProps, TLC, Json, IOUtils
Recs == JsonDeserialize(IOEnv.TRACE_FILE)
VARIABLES tid, p
vars == <<tid, p>>
R == Recs[tid]
St == R.st
Init == tid \in 1..Len(Recs) /\ p = 1
Next == p < R.lanes /\ p' = p + 1 /\ UNCHANGED tid
Spec == Init /\ [][Next]_vars
Fail(pid, c) == PrintT(<<"FAIL", pid, tid, p, c>>) /\ FALSE
NS == Len(SNodes(St))
NL == NLinesOf(St)
Ok == ~R.raised
Sane == (p > 1) \/ ~Ok \/ (TopoOK(St) /\ InDomain(St)) \/ (PrintT(<<"FAIL", "MACHINERY", tid, p, "Sane">>) /\ FALSE)
NoException == Ok \/ Fail(R.pid, "NoException")
Obs(x) == Len(R.waves) > 0            \* line waveforms were observed (memory reuse off)
W(x) == R.waves[x + 1][p]
InW(i) == R.inw[i][p]
PortW(i) == R.port[i][p]
SV(i) == R.s[i][p]
Lines == 0..(NL - 1)
Caps(i) == HasCapture(St, i)
\* every image is well formed and ends within its capacity
ImagesWellFormed == (Ok => /\ (Len(R.waves) > 0 => \A x \in Lines : WellFormed(W(x)) /\ Len(W(x)) <= R.caps[x + 1])
                           /\ \A i \in 1..NS : Caps(i) => WellFormed(PortW(i)) /\ Len(PortW(i)) <= R.pcaps[i]) \/ Fail("C03", "ImagesWellFormed")
\* what is captured at a port or state element is the complete waveform of the line at its pin 0
PortIsLine == (Ok /\ Len(R.waves) > 0 => \A i \in 1..NS : Caps(i) => PortW(i) = W(NodeOf(St, SNodes(St)[i]).ins[1])) \/ Fail(R.pid, "PortIsLine")
\* ... and the window scanned at capture has the capacity of that line, so the terminator of every waveform is in reach
PortWindowCoversLine == (Ok /\ Len(R.caps) > 0 => \A i \in 1..NS : Caps(i) => R.pcaps[i] = R.caps[NodeOf(St, SNodes(St)[i]).ins[1] + 1])
                        \/ Fail(R.pid, "PortWindowCoversLine")
\* ---------------- C03 ----------------
VInit == Eval(St, 2, [i \in 1..NS |-> InitVal(InW(i))])
VFinal == Eval(St, 2, [i \in 1..NS |-> FinalVal(InW(i))])
\* (vi, vf: bound once per state by LET - TLC caches a LET value, not an operator applied inside a quantifier)
Functional == (Ok /\ R.has.c03 =>
                 LET vi == VInit  vf == VFinal IN
                 /\ (Len(R.waves) > 0 => \A x \in Lines : WellFormed(W(x)) =>
                        InitVal(W(x)) = vi[x + 1] /\ FinalVal(W(x)) = vf[x + 1])
                 /\ \A i \in 1..NS : (Caps(i) /\ WellFormed(PortW(i))) =>
                        /\ InitVal(PortW(i)) = Captured(St, vi, i) /\ FinalVal(PortW(i)) = Captured(St, vf, i)
                        /\ SV(i)[1] = Captured(St, vi, i) /\ SV(i)[4] = Captured(St, vf, i)) \/ Fail("C03", "Functional")
\* ---------------- C04 ----------------
DMin(x) == MinOf({R.dl[x + 1][a][b] : a \in 1..2, b \in 1..2})
DMax(x) == MaxOf({R.dl[x + 1][a][b] : a \in 1..2, b \in 1..2})
NoWin == <<TMAX, TMIN>>
Has(w) == w[1] <= w[2]
\* static timing analysis of the annotated netlist for the actual input transition times: window <<earliest, latest>> per line
Sta ==
  LET step(v, n) ==
        LET nd == NodeOf(St, n)
            isS == n \in SSet(St)
            pins == IF nd.kind = FORK THEN {1} ELSE 1..4
            cs == {j \in pins : j <= Len(nd.ins) /\ nd.ins[j] >= 0 /\ Has(v[nd.ins[j] + 1])}
            win == IF isS THEN (LET w == InW(SIdx(St, n)) IN <<Earliest(w), Latest(w)>>)
                   ELSE IF cs = {} THEN NoWin
                   ELSE <<MinOf({v[nd.ins[j] + 1][1] + DMin(nd.ins[j]) : j \in cs}), MaxOf({v[nd.ins[j] + 1][2] + DMax(nd.ins[j]) : j \in cs})>>
            put(vv, k) == IF nd.outs[k] >= 0 /\ (isS \/ nd.kind = FORK \/ k = 1) THEN [vv EXCEPT ![nd.outs[k] + 1] = win] ELSE vv
        IN FoldLeft(put, v, [k \in 1..Len(nd.outs) |-> k])
  IN FoldLeft(step, [i \in 1..NL |-> NoWin], St.topo)
InWin(w, win) == \A t \in FiniteTimes(w) : win[1] <= t /\ t <= win[2]
InStaWindow == (Ok /\ R.has.c04 =>
                  LET sta == Sta IN
                  /\ (Len(R.waves) > 0 => \A x \in Lines : InWin(W(x), sta[x + 1]))
                  /\ \A i \in 1..NS : Caps(i) =>
                        LET win == sta[NodeOf(St, SNodes(St)[i]).ins[1] + 1] IN
                        /\ InWin(PortW(i), win)
                        /\ (SV(i)[2] < TMAX => win[1] <= SV(i)[2] /\ SV(i)[2] <= win[2])
                        /\ (SV(i)[3] > TMIN => win[1] <= SV(i)[3] /\ SV(i)[3] <= win[2])) \/ Fail("C04", "InStaWindow")
OnGrid == (Ok => ~R.offgrid) \/ Fail("C04", "OnGrid")
MonotoneIfPolIndep == (Ok /\ R.has.c04 /\ ~R.poldep =>
                         /\ (Len(R.waves) > 0 => \A x \in Lines : StrictlyIncreasing(W(x)))
                         /\ \A i \in 1..NS : Caps(i) => StrictlyIncreasing(PortW(i))) \/ Fail("C04", "MonotoneIfPolIndep")
ShiftEquivariant == (Ok /\ R.has.shift =>
                       /\ (Len(R.waves) > 0 => \A x \in Lines : R.sh.waves[x + 1][p] = Shift(W(x), R.sh.d))
                       /\ \A i \in 1..NS : Caps(i) => R.sh.port[i][p] = Shift(PortW(i), R.sh.d)) \/ Fail("C04", "ShiftEquivariant")
\* (the scaled run uses the factor R.sc.f / R.sc.den, den a power of two, and reports times in units of 1/den)
ScaleEquivariant == (Ok /\ R.has.scale =>
                       /\ (Len(R.waves) > 0 => \A x \in Lines : R.sc.waves[x + 1][p] = Scale(W(x), R.sc.f))
                       /\ \A i \in 1..NS : Caps(i) => R.sc.port[i][p] = Scale(PortW(i), R.sc.f)) \/ Fail("C04", "ScaleEquivariant")
\* ---------------- C05 ----------------
Abstracts8 == (Ok /\ R.has.c05 => \A i \in 1..NS : Caps(i) =>
                 LET r == R.resp8[i][p] IN
                 /\ Known(r)
                 /\ SV(i)[1] = Ini(r) /\ SV(i)[4] = Fin(r)
                 /\ (r \in {ZERO, ONE} => /\ SV(i)[2] = TMAX /\ SV(i)[3] = TMIN
                                          /\ FiniteTimes(PortW(i)) = {})) \/ Fail("C05", "Abstracts8")
\* ---------------- C13 ----------------
CaptureFaithful == (Ok /\ R.has.c13 => \A i \in 1..NS : (Caps(i) /\ WellFormed(PortW(i))) =>
                      LET w == PortW(i) IN
                      /\ SV(i)[1] = InitVal(w) /\ SV(i)[2] = Earliest(w) /\ SV(i)[3] = Latest(w) /\ SV(i)[4] = FinalVal(w)
                      /\ SV(i)[5] = (Cardinality({k \in 1..NEntries(w) : 2 * w[k] < R.T2})) % 2      \* value just before T (T2 = 2 T: T may lie between grid points)
                      /\ SV(i)[6] = (IF Overflowed(w) THEN 1 ELSE 0)) \/ Fail("C13", "CaptureFaithful")
OvlClearMeansExact == (Ok /\ R.has.big => \A i \in 1..NS : (Caps(i) /\ SV(i)[6] = 0) => PortW(i) = R.big.port[i][p]) \/ Fail("C13", "OvlClearMeansExact")
BigHasNoOverflow == (Ok /\ R.has.big => \A i \in 1..NS : Caps(i) => ~Overflowed(R.big.port[i][p]))
                    \/ (PrintT(<<"FAIL", "MACHINERY", tid, p, "BigHasNoOverflow">>) /\ FALSE)
\* with stripped forks the branch lines are not evaluated: they produce no waveform of their own
Evaluated(x) == ~(R.strip /\ NodeOf(St, St.lines[x + 1].drv).kind = FORK /\ St.lines[x + 1].drv \notin SSet(St))
Accs == {R.actrl[x + 1][1] : x \in {y \in Lines : Evaluated(y)}} \ {-1}
Weighted(x) == R.actrl[x + 1][2] * NRise(W(x)) + R.actrl[x + 1][3] * NFall(W(x))
CountsMatch == (Ok /\ R.has.abuf /\ Len(R.waves) > 0 => \A a \in Accs :
                  R.abuf[a + 1][p] = FoldLeft(LAMBDA acc, x : acc + (IF R.actrl[x + 1][1] = a /\ Evaluated(x) THEN Weighted(x) ELSE 0), 0, [i \in 1..NL |-> i - 1])) \/ Fail("C13", "CountsMatch")
=============================================================================
