SPECIFICATION Spec
INVARIANT PinsOnce
INVARIANT PinsNumbered
INVARIANT PinsMatchImpl
INVARIANT NamesDefined
INVARIANT SourceNamesDefined
INVARIANT DatasheetPinNames
INVARIANT FunctionIsDatasheet
INVARIANT SimulatedIsDatasheet
INVARIANT Combinational
CHECK_DEADLOCK FALSE
