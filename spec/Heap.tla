------------------------------- MODULE Heap -------------------------------
(***************************************************************************)
(* Concrete model (layer C) of kyupy.sim.Heap (src/kyupy/sim.py:83-146).   *)
(* One disjunct per code branch:                                           *)
(*   Alloc: exact fit / split / extend                                     *)
(*   Free : at end / at end + absorb previous free chunk /                 *)
(*          merge next / merge prev / merge both / plain insert            *)
(* The verdict formulas of property C08 (allocator half) live in HeapInv;  *)
(* here they are restated over the model's own variables for the design    *)
(* run (M), which shows that the *algorithm* satisfies them for all        *)
(* histories inside the bounds.                                            *)
(***************************************************************************)
EXTENDS Integers, Sequences, FiniteSets, TLC, SequencesExt
CONSTANTS SIZES,     \* set of request sizes
          MAXEND,    \* bound on the managed range (state constraint)
          MAXLIVE,   \* bound on simultaneously live chunks (state constraint)
          MAXDEPTH   \* bound on history length (state constraint), 0 = unbounded
VARIABLES chunks,     \* function start -> size            (Heap.chunks)
          released,   \* sequence of free chunk starts      (Heap.released)
          cursz,      \* Heap.current_size
          maxsz,      \* Heap.max_size
          live,       \* client view: function start -> requested size of chunks handed out and not yet freed
          hw,         \* client view: largest cursz ever seen
          last,       \* last operation: <<"init">>, <<"alloc", size, loc, branch>>, <<"free", loc, branch>>
          hist        \* abstract history: size s for alloc(s), -k for free(k-th live chunk by address); not in VIEW
vars == <<chunks, released, cursz, maxsz, live, hw, last, hist>>

Init == /\ chunks = <<>> /\ released = <<>> /\ cursz = 0 /\ maxsz = 0
        /\ live = <<>> /\ hw = 0 /\ last = <<"init">> /\ hist = <<>>

Put(f, k, v) == [x \in DOMAIN f \cup {k} |-> IF x = k THEN v ELSE f[x]]
Del(f, k) == [x \in DOMAIN f \ {k} |-> f[x]]
RemoveAtIdx(s, i) == SubSeq(s, 1, i-1) \o SubSeq(s, i+1, Len(s))
InsertAtIdx(s, i, v) == SubSeq(s, 1, i-1) \o <<v>> \o SubSeq(s, i, Len(s))
Max2(a, b) == IF a >= b THEN a ELSE b
\* bisect.bisect(released, loc): number of entries <= loc (released is sorted)
Bisect(s, loc) == Cardinality({i \in 1..Len(s) : s[i] <= loc})
\* insort_left(released, loc): position before the first entry >= loc
InsortLeft(s, loc) == InsertAtIdx(s, Cardinality({i \in 1..Len(s) : s[i] < loc}) + 1, loc)
\* indices of released chunks large enough, in list order ("for idx, loc in enumerate(self.released)")
Fit(size) == {i \in 1..Len(released) : chunks[released[i]] >= size}
\* k-th live chunk by address (abstract naming of a chunk used in histories)
LiveSorted == SetToSortSeq(DOMAIN live, <)
RankOf(loc) == CHOOSE k \in 1..Len(LiveSorted) : LiveSorted[k] = loc

AllocAt(size, loc, branch) ==
  /\ live' = Put(live, loc, size)
  /\ last' = <<"alloc", size, loc, branch>>
  /\ hist' = Append(hist, size)

FitIdx(size) == CHOOSE j \in Fit(size) : \A k \in Fit(size) : j <= k

AllocExact(size) ==
  /\ Fit(size) # {} /\ chunks[released[FitIdx(size)]] = size
  /\ released' = RemoveAtIdx(released, FitIdx(size))
  /\ UNCHANGED <<chunks, cursz, maxsz, hw>>
  /\ AllocAt(size, released[FitIdx(size)], "exact")
AllocSplit(size) ==
  /\ Fit(size) # {} /\ chunks[released[FitIdx(size)]] # size
  /\ LET i == FitIdx(size)  loc == released[i] IN
     /\ chunks' = Put(Put(chunks, loc, size), loc + size, chunks[loc] - size)
     /\ released' = [released EXCEPT ![i] = loc + size]
     /\ UNCHANGED <<cursz, maxsz, hw>>
     /\ AllocAt(size, loc, "split")
AllocExtend(size) ==
  /\ Fit(size) = {}
  /\ chunks' = Put(chunks, cursz, size)
  /\ cursz' = cursz + size
  /\ maxsz' = Max2(maxsz, cursz + size)
  /\ hw' = Max2(hw, cursz + size)
  /\ UNCHANGED released
  /\ AllocAt(size, cursz, "extend")
Alloc(size) == AllocExact(size) \/ AllocSplit(size) \/ AllocExtend(size)

FreeCommon(loc, branch) ==
  /\ live' = Del(live, loc)
  /\ hist' = Append(hist, 0 - RankOf(loc))
  /\ last' = <<"free", loc, branch>>
  /\ UNCHANGED <<maxsz, hw>>
AtEnd(loc) == loc + chunks[loc] = cursz
\* "if len(self.released) > 0: prev = self.released[-1]; if prev + chunks[prev] == current_size"
AbsorbPrev(loc) == LET n == Len(released) IN
  IF n = 0 THEN FALSE ELSE released[n] + chunks[released[n]] = loc
FreeEnd(loc) ==
  /\ loc \in DOMAIN live /\ AtEnd(loc) /\ ~AbsorbPrev(loc)
  /\ chunks' = Del(chunks, loc) /\ released' = released /\ cursz' = loc
  /\ FreeCommon(loc, "end")
FreeEndAbsorb(loc) ==
  /\ loc \in DOMAIN live /\ AtEnd(loc) /\ AbsorbPrev(loc)
  /\ LET n == Len(released) IN
     /\ chunks' = Del(Del(chunks, loc), released[n])
     /\ released' = SubSeq(released, 1, n - 1)
     /\ cursz' = released[n]
  /\ FreeCommon(loc, "end-absorb")
Ridx(loc) == Bisect(released, loc)
MergeNext(loc) == IF Ridx(loc) < Len(released) THEN loc + chunks[loc] = released[Ridx(loc) + 1] ELSE FALSE
MergePrev(loc) == IF Ridx(loc) > 0 THEN released[Ridx(loc)] + chunks[released[Ridx(loc)]] = loc ELSE FALSE
FreeInsert(loc) ==
  /\ loc \in DOMAIN live /\ ~AtEnd(loc) /\ ~MergeNext(loc) /\ ~MergePrev(loc)
  /\ chunks' = chunks /\ released' = InsortLeft(released, loc) /\ cursz' = cursz
  /\ FreeCommon(loc, "insert")
FreeMergeNext(loc) ==
  /\ loc \in DOMAIN live /\ ~AtEnd(loc) /\ MergeNext(loc) /\ ~MergePrev(loc)
  /\ LET nx == loc + chunks[loc] IN
     /\ chunks' = Put(Del(chunks, nx), loc, chunks[loc] + chunks[nx])
     /\ released' = [released EXCEPT ![Ridx(loc) + 1] = loc]
  /\ cursz' = cursz
  /\ FreeCommon(loc, "merge-next")
FreeMergePrev(loc) ==
  /\ loc \in DOMAIN live /\ ~AtEnd(loc) /\ ~MergeNext(loc) /\ MergePrev(loc)
  /\ LET pv == released[Ridx(loc)] IN
     /\ chunks' = Put(Del(chunks, loc), pv, chunks[pv] + chunks[loc])
     /\ released' = released            \* insort_left then del of the same position
  /\ cursz' = cursz
  /\ FreeCommon(loc, "merge-prev")
FreeMergeBoth(loc) ==
  /\ loc \in DOMAIN live /\ ~AtEnd(loc) /\ MergeNext(loc) /\ MergePrev(loc)
  /\ LET nx == loc + chunks[loc]  pv == released[Ridx(loc)] IN
     /\ chunks' = Put(Del(Del(chunks, nx), loc), pv, chunks[pv] + chunks[loc] + chunks[nx])
     /\ released' = RemoveAtIdx(released, Ridx(loc) + 1)
  /\ cursz' = cursz
  /\ FreeCommon(loc, "merge-both")
Free(loc) == \/ FreeEnd(loc) \/ FreeEndAbsorb(loc) \/ FreeInsert(loc)
             \/ FreeMergeNext(loc) \/ FreeMergePrev(loc) \/ FreeMergeBoth(loc)

DoAllocExact == \E s \in SIZES : AllocExact(s)
DoAllocSplit == \E s \in SIZES : AllocSplit(s)
DoAllocExtend == \E s \in SIZES : AllocExtend(s)
DoFreeEnd == \E l \in DOMAIN live : FreeEnd(l)
DoFreeEndAbsorb == \E l \in DOMAIN live : FreeEndAbsorb(l)
DoFreeInsert == \E l \in DOMAIN live : FreeInsert(l)
DoFreeMergeNext == \E l \in DOMAIN live : FreeMergeNext(l)
DoFreeMergePrev == \E l \in DOMAIN live : FreeMergePrev(l)
DoFreeMergeBoth == \E l \in DOMAIN live : FreeMergeBoth(l)
Next == \/ DoAllocExact \/ DoAllocSplit \/ DoAllocExtend
        \/ DoFreeEnd \/ DoFreeEndAbsorb \/ DoFreeInsert
        \/ DoFreeMergeNext \/ DoFreeMergePrev \/ DoFreeMergeBoth
Spec == Init /\ [][Next]_vars
Bound == /\ cursz <= MAXEND /\ Cardinality(DOMAIN live) <= MAXLIVE
         /\ (MAXDEPTH > 0 => TLCGet("level") <= MAXDEPTH)
View == <<chunks, released, cursz, maxsz, live, hw, last>>

\* ---- C08 allocator invariants, over the model ----
Starts == DOMAIN chunks
RelSet == {released[i] : i \in 1..Len(released)}
Tiling == /\ \A a \in Starts : chunks[a] > 0
          /\ (Starts = {} => cursz = 0)
          /\ (Starts # {} => 0 \in Starts)
          /\ \A a \in Starts : (a + chunks[a] = cursz) \/ (a + chunks[a] \in Starts)
          /\ \A a, b \in Starts : a < b => a + chunks[a] <= b
FreeLive == /\ RelSet \subseteq Starts /\ Len(released) = Cardinality(RelSet)
            /\ DOMAIN live = Starts \ RelSet
            /\ \A a \in DOMAIN live : chunks[a] = live[a]
Sorted == \A i \in 1..(Len(released) - 1) : released[i] < released[i+1]
Coalesced == /\ \A a \in RelSet : a + chunks[a] \notin RelSet
             /\ \A a \in RelSet : a + chunks[a] # cursz
HighWater == maxsz = hw
NoOverlapOnAlloc == last[1] = "alloc" =>
     \A a \in DOMAIN live \ {last[3]} : a + live[a] <= last[3] \/ last[3] + last[2] <= a
WithinRange == \A a \in DOMAIN live : 0 <= a /\ a + live[a] <= cursz

\* ---- behaviour generation (R): print every distinct (state, last op) with a history reaching it ----
EmitHist == PrintT(<<"HIST", hist>>)
=============================================================================
