-------------------------------- MODULE SdfT --------------------------------
(***************************************************************************)
(* Verdict specification (layer V) for C14: the delay arrays returned by   *)
(* the REAL DelayFile.iopaths() / interconnects() must equal the array     *)
(* obtained by replaying the file's entries - in file order, whatever the  *)
(* grouping into CELL blocks - through the annotation rules:               *)
(*  IOPATH  inst ipin [edge] -> opin, (r) (f): line feeding input pin ipin *)
(*          of inst; input polarity posedge -> 0, negedge -> 1, none ->    *)
(*          both; output polarity 0 <- r, 1 <- f; triple = datasets 0,1,2  *)
(*          (empty = 0); a single value list applies to both polarities    *)
(*          (the harness sends f = r in that case, flag `single`).         *)
(*  INTERCONNECT from -> to, (r) (f): the line into the branch fork of the *)
(*          reader pin, or the sole line of the signal; both input         *)
(*          polarities.  All-zero entries annotate nothing.                *)
(* Every other entry of the arrays is zero (whole-array comparison).       *)
(* Values are in 1/8 units (integers).                                     *)
(* Record: [st, ents : << [io, inst, pin, edge, r, f] | [io=FALSE, from,   *)
(*          fpin, to, tpin, r, f] >>, gotio, gotic : [ds][line][ip][op],   *)
(*          raised]                                                        *)
(***************************************************************************)
EXTENDS Integers, Sequences, FiniteSets, TLC, Json, IOUtils, SequencesExt
Recs == JsonDeserialize(IOEnv.TRACE_FILE)
VARIABLE tid
Init == tid \in 1..Len(Recs)
Next == UNCHANGED tid
Spec == Init /\ [][Next]_tid
R == Recs[tid]
St == R.st
Fail(c) == PrintT(<<"FAIL", "C14", tid, 0, c>>) /\ FALSE
NL == Len(St.lines)
FORK == "__fork__"
Nd(n) == St.nodes[n + 1]
Zero == [ds \in 1..3 |-> [x \in 1..NL |-> <<<<0, 0>>, <<0, 0>>>>]]
\* line an IOPATH entry annotates: the one connected to that input pin of the instance (-1: none)
IoLine(e) == IF e.pin + 1 <= Len(Nd(e.inst).ins) THEN Nd(e.inst).ins[e.pin + 1] ELSE -1
IPols(e) == IF e.edge = "posedge" THEN {1} ELSE IF e.edge = "negedge" THEN {2} ELSE {1, 2}
ApplyIo(D, e) == LET x == IoLine(e) IN
                 IF x < 0 THEN D
                 ELSE [ds \in 1..3 |-> [D[ds] EXCEPT ![x + 1] = [ip \in 1..2 |-> IF ip \in IPols(e) THEN <<e.r[ds], e.f[ds]>> ELSE @[ip]]]]
\* line an INTERCONNECT entry annotates
IcLine(e) == LET o == IF e.fpin + 1 <= Len(Nd(e.from).outs) THEN Nd(e.from).outs[e.fpin + 1] ELSE -1
                 i == IF e.tpin + 1 <= Len(Nd(e.to).ins) THEN Nd(e.to).ins[e.tpin + 1] ELSE -1
             IN IF o < 0 \/ i < 0 THEN -1
                ELSE LET f1 == St.lines[o + 1].rdr
                         f2 == St.lines[i + 1].drv
                     IN IF f1 # f2 THEN Nd(f2).ins[1]                                   \* branch fork: its input line
                        ELSE IF Len(Nd(f2).outs) = 1 THEN Nd(f2).ins[1] ELSE -1          \* sole reader, else nothing to annotate
AllZero(e) == \A ds \in 1..3 : e.r[ds] = 0 /\ e.f[ds] = 0
ApplyIc(D, e) == LET x == IcLine(e) IN
                 IF x < 0 \/ AllZero(e) THEN D
                 ELSE [ds \in 1..3 |-> [D[ds] EXCEPT ![x + 1] = <<<<e.r[ds], e.f[ds]>>, <<e.r[ds], e.f[ds]>>>>]]
ExpectIo == FoldLeft(LAMBDA D, e : IF e.io THEN ApplyIo(D, e) ELSE D, Zero, R.ents)
ExpectIc == FoldLeft(LAMBDA D, e : IF e.io THEN D ELSE ApplyIc(D, e), Zero, R.ents)
NoException == ~R.raised \/ Fail("NoException")
\* every IOPATH lands on [dataset, line, input polarity, output polarity]; every other entry is zero
IoPathsLand == R.raised \/ R.gotio = ExpectIo \/ Fail("IoPathsLand")
InterconnectsLand == R.raised \/ R.gotic = ExpectIc \/ Fail("InterconnectsLand")
\* The generator knows from the abstract module and the branchforks setting which entries name two connected pins with a
\* line of their own between them (a branch fork was requested, or the reader is the sole one).  Such an entry must have a
\* line to land on in the circuit the parser built: otherwise its delay is lost (a C14 verdict).
EntryHasLine == (\A k \in 1..Len(R.ents) : LET e == R.ents[k] IN ~e.noline => ((IF e.io THEN IoLine(e) ELSE IcLine(e)) >= 0))
                \/ Fail("EntryHasLine")
\* machinery: entries the generator aimed at a pin WITHOUT a line (noline) must not find one in the model either
EntriesHaveLines == (\A k \in 1..Len(R.ents) : LET e == R.ents[k] IN e.noline => ((IF e.io THEN IoLine(e) ELSE IcLine(e)) < 0))
                    \/ (PrintT(<<"FAIL", "MACHINERY", tid, 0, "EntriesHaveLines">>) /\ FALSE)
=============================================================================
