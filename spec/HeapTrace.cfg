CONSTANTS SIZES = {1}
 MAXEND = 0
 MAXLIVE = 0
 MAXDEPTH = 0
SPECIFICATION TSpec
INVARIANT Conform
CHECK_DEADLOCK FALSE
