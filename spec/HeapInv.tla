------------------------------ MODULE HeapInv ------------------------------
(***************************************************************************)
(* Verdict formulas (layer V) of property C08, allocator half:             *)
(*   "The underlying allocator, under every sequence of allocations and    *)
(*    releases, never returns a region overlapping a live one, coalesces   *)
(*    adjacent free regions, keeps its regions tiling the managed range    *)
(*    and reports the true high-water mark."                               *)
(* State-fed trace validation: every trace is a recorded history of the    *)
(* REAL kyupy.sim.Heap; each event carries the call, its result and the    *)
(* allocator's tables after the call.  The spec keeps only the *client's*  *)
(* view (which regions were handed out and not given back, the largest     *)
(* managed size ever reported) and evaluates the statement on the logged   *)
(* tables.  No allocation policy is demanded.                              *)
(* Event: [op |-> "alloc"|"free", size, loc, raised, chunks |-> <<<<start, *)
(*         size>>...>> sorted by start, released |-> <<starts>>, cur, max] *)
(***************************************************************************)
EXTENDS Integers, Sequences, FiniteSets, TLC, Json, IOUtils
Traces == JsonDeserialize(IOEnv.TRACE_FILE)
VARIABLES tid,    \* which recorded history
          l,      \* number of events consumed
          live,   \* client view: set of <<loc, size>> handed out and not yet freed (before event l+1: after event l)
          hw      \* client view: largest current_size seen so far
vars == <<tid, l, live, hw>>
Fail(c) == PrintT(<<"FAIL", "C08", tid, l, c>>) /\ FALSE
Max2(a, b) == IF a >= b THEN a ELSE b

Init == tid \in 1..Len(Traces) /\ l = 0 /\ live = {} /\ hw = 0
Step == /\ l < Len(Traces[tid])
        /\ LET e == Traces[tid][l + 1] IN
           /\ live' = IF e.raised THEN live
                      ELSE IF e.op = "alloc" THEN live \cup {<<e.loc, e.size>>}
                      ELSE {c \in live : c[1] # e.loc}
           /\ hw' = IF e.raised THEN hw ELSE Max2(hw, e.cur)
        /\ l' = l + 1 /\ UNCHANGED tid
Spec == Init /\ [][Step]_vars

E == Traces[tid][l]                       \* the event just consumed (l >= 1)
Ch == E.chunks
NCh == Len(Ch)
Starts == {Ch[i][1] : i \in 1..NCh}
SizeOf(a) == Ch[CHOOSE i \in 1..NCh : Ch[i][1] = a][2]
Rel == {E.released[i] : i \in 1..Len(E.released)}
LiveLocs == {c[1] : c \in live}
Checked == l >= 1 /\ ~E.raised

NoException == (l >= 1 => ~E.raised) \/ Fail("NoException")
\* regions tile [0, current_size): positive sizes, start at 0, each ends where the next begins, last ends at current_size
Tiling == (Checked =>
             /\ \A i \in 1..NCh : Ch[i][2] > 0
             /\ (NCh = 0 => E.cur = 0)
             /\ (NCh > 0 => Ch[1][1] = 0 /\ Ch[NCh][1] + Ch[NCh][2] = E.cur)
             /\ \A i \in 1..(NCh - 1) : Ch[i][1] + Ch[i][2] = Ch[i + 1][1]) \/ Fail("Tiling")
\* the free list names exactly the chunks that are not live; every live chunk still has the size that was requested
FreeLive == (Checked =>
               /\ Rel \subseteq Starts /\ Cardinality(Rel) = Len(E.released)
               /\ LiveLocs = Starts \ Rel
               /\ \A c \in live : c[1] \in Starts /\ SizeOf(c[1]) = c[2]) \/ Fail("FreeLive")
\* coalescing: no two adjacent free chunks, no free chunk at the end of the managed range
Coalesced == (Checked /\ Rel \subseteq Starts =>
                \A a \in Rel : (a + SizeOf(a)) \notin Rel /\ a + SizeOf(a) # E.cur) \/ Fail("Coalesced")
\* the reported high-water mark is the true one
HighWater == (Checked => E.max = hw) \/ Fail("HighWater")
\* a returned region has the requested size, lies inside the managed range and overlaps no live region
NoOverlapOnAlloc == (Checked /\ E.op = "alloc" =>
                       /\ E.loc >= 0 /\ E.loc + E.size <= E.cur
                       /\ \A c \in live : c[1] = E.loc \/ c[1] + c[2] <= E.loc \/ E.loc + E.size <= c[1]
                       /\ Cardinality({c \in live : c[1] = E.loc}) = 1) \/ Fail("NoOverlapOnAlloc")
=============================================================================
