------------------------------- MODULE OpsT -------------------------------
(***************************************************************************)
(* Verdict trace specification (layer V) for C12: results of the REAL      *)
(* array-based (mv_xxx) and bit-parallel (bp4v_xxx, bp8v_xxx) operators, by   *)
(* element and by lane, against the documented algebra (Logic.tla).        *)
(* Record: [fn |-> "not"|"and"|"or"|"xor", form |-> "mv"|"bp8"|"bp4",      *)
(*          ins |-> << operand code sequences, already broadcast >>,       *)
(*          res |-> returned codes, arr |-> codes in the caller's out=     *)
(*          array afterwards (= res when no out= was given),               *)
(*          shapes |-> operand shapes, rshape |-> shape of the result,     *)
(*          raised |-> BOOLEAN]                                            *)
(***************************************************************************)
EXTENDS Logic, TLC, Json, IOUtils
Recs == JsonDeserialize(IOEnv.TRACE_FILE)
VARIABLE tid
Init == tid \in 1..Len(Recs)
Next == UNCHANGED tid
Spec == Init /\ [][Next]_tid
R == Recs[tid]
Fail(c) == PrintT(<<"FAIL", "C12", tid, 0, c>>) /\ FALSE
K == Len(R.ins)
N == Len(R.res)
M(v) == IF R.form = "bp4" THEN v % 4 ELSE v
Expected(j) == LET S == [k \in 1..K |-> R.ins[k][j]] IN
   M(CASE R.fn = "not" -> Not8(S[1]) [] R.fn = "and" -> And8(S) [] R.fn = "or" -> Or8(S) [] R.fn = "xor" -> Xor8(S))
NoException == ~R.raised \/ Fail("NoException")
\* the returned array holds the documented value at every element / lane
ResultIsAlgebra == (R.raised \/ \A j \in 1..N : R.res[j] = Expected(j)) \/ Fail("ResultIsAlgebra")
\* a caller-supplied output array receives the result
OutReceives == (R.raised \/ (Len(R.arr) = N /\ \A j \in 1..N : R.arr[j] = Expected(j))) \/ Fail("OutReceives")
\* element-wise for arrays of any shape: NumPy broadcasting of the operand shapes
Max2(a, b) == IF a >= b THEN a ELSE b
Dim(s, i, n) == LET off == n - Len(s) IN IF i <= off THEN 1 ELSE s[i - off]     \* shape s right-aligned to rank n
RECURSIVE MaxRank(_, _)
MaxRank(ss, k) == IF k > Len(ss) THEN 0 ELSE Max2(Len(ss[k]), MaxRank(ss, k + 1))
BShape == LET n == MaxRank(R.shapes, 1) IN
          [i \in 1..n |-> LET ds == {Dim(R.shapes[k], i, n) : k \in 1..Len(R.shapes)} IN CHOOSE d \in ds : \A e \in ds : e <= d]
ShapeIsBroadcast == (R.raised \/ R.form # "mv" \/ R.rshape = BShape) \/ Fail("ShapeIsBroadcast")
=============================================================================
