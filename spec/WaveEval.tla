---------------------------- MODULE WaveEval ----------------------------
(***************************************************************************)
(* Concrete model (layer C) of the waveform merge kernel                   *)
(* kyupy.wave_sim._wave_eval (wave_sim.py:155-264): one step of Loop per   *)
(* iteration of the `while` loop with the identical case split (which      *)
(* input fires, toggle or not, emit / pulse-filter / overflow), the TMIN   *)
(* phase of signals starting at 1, and the terminator written at the end.  *)
(* Init enumerates ALL configurations inside the constants: look-up table, *)
(* input waveforms (initial value, <= MAXTR transitions on 0..TGRID), four *)
(* independent delay entries per input line, output capacity.  The design  *)
(* run (M) shows that the algorithm satisfies the verdict formulas of      *)
(* C03/C04/C05/C13 for every such configuration; the real kernel is bound  *)
(* to the model by WaveEvalTrace (conformance, DRIFT only).                *)
(***************************************************************************)
EXTENDS WaveProps, TLC
CONSTANTS NIN,        \* number of modelled inputs (1..4)
          LUTS,       \* set of LUT constants to explore
          TGRID,      \* max finite time in input waveforms
          MAXTR,      \* max transitions per input
          DVALS,      \* set of delay values
          CAPS,       \* set of output capacities
          POLDEP      \* TRUE: 4 independent delay entries per line; FALSE: one value per line

Bit(n, k) == (n \div (2^k)) % 2
Add(t, d) == IF t >= TMAX THEN t ELSE IF t <= TMIN THEN TMIN ELSE t + d
Diff(a, b) == IF b <= TMIN THEN (IF a <= TMIN THEN 0 ELSE INF) ELSE IF a <= TMIN THEN 0 - INF ELSE a - b
Min2(a, b) == IF a <= b THEN a ELSE b
Max2(a, b) == IF a >= b THEN a ELSE b
RECURSIVE MinSeq(_), MaxSeq(_)
MinSeq(s) == IF Len(s) = 1 THEN s[1] ELSE Min2(s[1], MinSeq(Tail(s)))
MaxSeq(s) == IF Len(s) = 1 THEN s[1] ELSE Max2(s[1], MaxSeq(Tail(s)))

Inputs == 1..NIN
\* strictly increasing finite time sequences of length <= MAXTR
IncSeqs == UNION {{s \in [1..n -> 0..TGRID] : \A i \in 1..(n-1) : s[i] < s[i+1]} : n \in 0..MAXTR}
\* memory image of an input waveform: optional TMIN, times, terminator
Image(init, ts) == (IF init = 1 THEN <<TMIN>> ELSE <<>>) \o ts \o <<TMAX>>

VARIABLES lut, win, dl, cap,          \* configuration (chosen in Init)
          cur, inb, zc, zv, z, prev, nxt, ovf, pc
vars == <<lut, win, dl, cap, cur, inb, zc, zv, z, prev, nxt, ovf, pc>>

At(i, k) == win[i][k + 1]                       \* cbuf[mem_i + k]
Dl(i, ip, op) == dl[i][ip + 1][op + 1]
Cand(i, c, v) == Add(At(i, c), Dl(i, c % 2, v))

DelaySets == IF POLDEP THEN [1..2 -> [1..2 -> DVALS]]
             ELSE {[ip \in 1..2 |-> [op \in 1..2 |-> d]] : d \in DVALS}

Init == /\ lut \in LUTS
        /\ \E ini \in [Inputs -> 0..1], ts \in [Inputs -> IncSeqs] :
              win = [i \in Inputs |-> Image(ini[i], ts[i])]
        /\ dl \in [Inputs -> DelaySets]
        /\ cap \in CAPS
        /\ cur = [i \in Inputs |-> 0]
        /\ inb = 0
        /\ zc = lut % 2
        /\ zv = lut % 2
        /\ z = IF lut % 2 = 1 THEN <<TMIN>> ELSE <<>>
        /\ prev = TMIN
        /\ nxt = [i \in Inputs |-> Add(At(i, 0), Dl(i, 0, lut % 2))]
        /\ ovf = 0
        /\ pc = "loop"

CurT == MinSeq([i \in Inputs |-> nxt[i]])
\* first input (in a,b,c,d order) whose candidate equals the current time
Sel == CHOOSE i \in Inputs : nxt[i] = CurT /\ \A j \in Inputs : j < i => nxt[j] # CurT

SetAt(s, k, v) == IF k + 1 <= Len(s) THEN [s EXCEPT ![k + 1] = v] ELSE Append(s, v)   \* k = Len(s) or overwrite

Loop == /\ pc = "loop"
        /\ IF CurT < TMAX
           THEN LET i == Sel
                    t == CurT
                    c1 == cur[i] + 1
                    inb1 == IF Bit(inb, i - 1) = 1 THEN inb - 2^(i-1) ELSE inb + 2^(i-1)
                    thresh == Dl(i, c1 % 2, zv)
                    nextt == Add(At(i, c1), Dl(i, ((c1 % 2) + 1) % 2, 1 - zv))
                    toggle == (zc % 2) # Bit(lut, inb1)
                    emit == zc = 0 \/ nextt < t \/ Diff(t, prev) > thresh
                    room == zc < cap - 1
                    zc1 == IF ~toggle THEN zc ELSE IF emit /\ room THEN zc + 1 ELSE zc - 1
                    zv1 == IF toggle THEN 1 - zv ELSE zv
                    z1 == IF toggle /\ emit /\ room THEN SetAt(SubSeq(z, 1, zc), zc, t) ELSE z
                    prev1 == IF ~toggle THEN prev
                             ELSE IF emit /\ room THEN t
                             ELSE IF emit THEN z[zc]            \* overflow: cbuf[z_mem + z_cur - 1]
                             ELSE IF zc - 1 > 0 THEN z[zc - 1] ELSE TMIN
                    cur1 == [cur EXCEPT ![i] = c1]
                IN /\ cur' = cur1
                   /\ inb' = inb1
                   /\ zc' = zc1
                   /\ zv' = zv1
                   /\ z' = z1
                   /\ prev' = prev1
                   /\ ovf' = IF toggle /\ emit /\ ~room THEN ovf + 1 ELSE ovf
                   /\ nxt' = [j \in Inputs |-> Add(At(j, cur1[j]), Dl(j, cur1[j] % 2, zv1))]
                   /\ pc' = "loop"
           ELSE /\ z' = Append(SubSeq(z, 1, zc), IF ovf > 0 THEN TMAXOVL ELSE MaxSeq([i \in Inputs |-> nxt[i]]))
                /\ pc' = "done"
                /\ UNCHANGED <<cur, inb, zc, zv, prev, nxt, ovf>>
        /\ UNCHANGED <<lut, win, dl, cap>>

Next == Loop \/ (pc = "done" /\ UNCHANGED vars)
Spec == Init /\ [][Next]_vars

\* ---------- properties ----------
InIdx(f) == LET RECURSIVE S(_) S(k) == IF k > NIN THEN 0 ELSE f[k] * 2^(k-1) + S(k+1) IN S(1)
LutOf(f) == Bit(lut, InIdx(f))
Finite(w) == FiniteIdx(w)
AllDl == {Dl(i, a, b) : i \in Inputs, a \in 0..1, b \in 0..1}
MinD == CHOOSE d \in AllDl : \A e \in AllDl : d <= e
MaxD == CHOOSE d \in AllDl : \A e \in AllDl : d >= e
InTimes == UNION {{win[i][k] : k \in Finite(win[i])} : i \in Inputs}

TypeOK == zc >= 0 /\ zc <= cap - 1 /\ (zc % 2) = zv /\ zc <= Len(z)
Done == pc = "done"
Functional == Done => /\ InitVal(z) = LutOf([i \in Inputs |-> InitVal(win[i])])
                      /\ FinalVal(z) = LutOf([i \in Inputs |-> FinalVal(win[i])])
                      /\ Len(z) <= cap
                      /\ z[Len(z)] >= TMAX
Window == Done => \A k \in Finite(z) : \E a \in InTimes, b \in InTimes : a + MinD <= z[k] /\ z[k] <= b + MaxD
Monotone == (Done /\ ~POLDEP) => \A k \in 1..(Len(z) - 2) : z[k] < z[k+1]
MonotoneAlways == Done => \A k \in 1..(Len(z) - 2) : z[k] < z[k+1]
Quiet == Done => ((\A i \in Inputs : Finite(win[i]) = {}) => Finite(z) = {})
OvlFlag == Done => (z[Len(z)] = TMAXOVL <=> ovf > 0)
\* every finite output time is some input edge plus one of THAT line's four delay entries (the mechanism behind C04)
EdgeIsInputPlusDelay == Done => \A k \in Finite(z) : \E i \in Inputs : \E j \in Finite(win[i]) : \E a \in 0..1, b \in 0..1 :
                                   z[k] = win[i][j] + Dl(i, a, b)
\* switching counts returned by the kernel = rising / falling transitions of the produced waveform (C13)
CountsMatch == Done => NRise(z) = (IF InitVal(z) = 1 THEN (zc + 1) \div 2 - 1 ELSE (zc + 1) \div 2) /\ NFall(z) = zc \div 2
WithinCap == Done => Len(z) <= cap /\ WellFormed(z)
=============================================================================
