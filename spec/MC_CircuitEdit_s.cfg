\* design run (M) with Circuit.substitute: one cell kind + fork, <= 3 hand-made nodes, <= 3 lines, pins <= 1,
\* implementations 1 (and), 4 (buf, one input unread), 5 (empty), 6 (one input, no output), 3 (inverter + and, shared input)
CONSTANTS
  NAMES = {"a", "b"}
  CELLKINDS = {"and"}
  MAXNODES = 3
  MAXLINES = 3
  MAXPIN = 1
  MAXDEPTH = 5
  SUBIMPLS = {1, 3, 4, 5, 6}
SPECIFICATION Spec
INVARIANT WF
PROPERTY CloneIdentity
VIEW View
CONSTRAINT DepthBound
CHECK_DEADLOCK FALSE
