----------------------------- MODULE CallbackT -----------------------------
(***************************************************************************)
(* Verdict trace specification (layer V) for C16: the fault-injection      *)
(* callback of the REAL LogicSim.c_prop, in all three logics.              *)
(* Record (one run with a recording callback that overwrites one signal):  *)
(*  st, m, lanes, stim        as in LogicSimT                              *)
(*  strip                     forks stripped (branch lines not evaluated)  *)
(*  calls  << [line, vals] >> invocations in the order they happened:      *)
(*                            identity received and a copy of the view     *)
(*                            (codes per lane) BEFORE any overwrite        *)
(*  inj    [line, vals]       signal overwritten (line = -1: untouched)    *)
(*  resp                      s[1] of this run;  plain: s[1] without any   *)
(*                            callback; rerun: s[1] after propagating the  *)
(*                            SAME simulator once more without callback    *)
(* One state per lane.                                                     *)
(***************************************************************************)
EXTENDS Netlist, TLC, Json, IOUtils
Recs == JsonDeserialize(IOEnv.TRACE_FILE)
VARIABLES tid, p
vars == <<tid, p>>
R == Recs[tid]
St == R.st
Init == tid \in 1..Len(Recs) /\ p = 1
Next == p < R.lanes /\ p' = p + 1 /\ UNCHANGED tid
Spec == Init /\ [][Next]_vars
Fail(c) == PrintT(<<"FAIL", "C16", tid, p, c>>) /\ FALSE
NS == Len(SNodes(St))
NL == NLinesOf(St)
Asg == [i \in 1..NS |-> R.stim[i][p]]
Ok == ~R.raised
Sane == (p > 1) \/ (TopoOK(St) /\ InDomain(St)) \/ (PrintT(<<"FAIL", "MACHINERY", tid, p, "Sane">>) /\ FALSE)
NoException == Ok \/ Fail("NoException")
\* invocations that name a signal of the netlist (a gate with unconnected output has no signal)
SigCalls == SelectSeq(R.calls, LAMBDA c : c.line >= 0 /\ c.line < NL)
CalledLines == {SigCalls[i].line : i \in 1..Len(SigCalls)}
DrvNode(x) == St.lines[x + 1].drv
DrvPin(x) == St.lines[x + 1].dpin
\* a line is evaluated iff something drives it in the simulation model: every line, except branches of stripped forks
Stripped(x) == R.strip /\ NodeOf(St, DrvNode(x)).kind = FORK /\ DrvNode(x) \notin SSet(St)
Evaluated == {x \in 0..(NL - 1) : ~Stripped(x)}
\* exactly once for every evaluated signal, identifying it
OncePerSignal == (Ok /\ p = 1 => /\ Len(SigCalls) = Cardinality(CalledLines)
                                 /\ CalledLines = Evaluated) \/ Fail("OncePerSignal")
\* in evaluation order: the operands of the driving node were evaluated (and reported) before
PosOf(x) == CHOOSE i \in 1..Len(SigCalls) : SigCalls[i].line = x
RECURSIVE StemLine(_)
StemLine(x) == IF Stripped(x) /\ Len(NodeOf(St, DrvNode(x)).ins) > 0 /\ NodeOf(St, DrvNode(x)).ins[1] >= 0
               THEN StemLine(NodeOf(St, DrvNode(x)).ins[1]) ELSE x
InOrder == (Ok /\ p = 1 /\ CalledLines = Evaluated /\ Len(SigCalls) = Cardinality(CalledLines) =>
              \A x \in Evaluated : DrvNode(x) \notin SSet(St) =>
                  \A y \in ConnIns(St, DrvNode(x)) : StemLine(y) \in Evaluated => PosOf(StemLine(y)) < PosOf(x)) \/ Fail("InOrder")
\* the view holds the freshly computed value of that signal (given the earlier overwrite)
V == EvalO(St, R.m, Asg, R.inj.line, IF R.inj.line >= 0 THEN R.inj.vals[p] ELSE 0)
VPlain == Eval(St, R.m, Asg)
\* (the two evaluations are bound by LET once per state: TLC caches a LET value, not an operator applied inside \A)
ViewIsFresh == (Ok => LET v == V  vp == VPlain  sc == SigCalls IN
                  \A i \in 1..Len(sc) : LET x == sc[i].line IN
                  sc[i].vals[p] = (IF x = R.inj.line THEN
                                      \* the overwritten signal itself is shown as computed from (unaffected) upstream values
                                      vp[x + 1] ELSE v[x + 1])) \/ Fail("ViewIsFresh")
\* leaving the values untouched changes nothing
NoOpUnchanged == (Ok /\ R.inj.line < 0 => \A i \in 1..NS : HasCapture(St, i) => R.resp[i][p] = R.plain[i][p]) \/ Fail("NoOpUnchanged")
\* ... also afterwards: propagating the same simulator again without a callback gives the untouched result
RerunClean == (Ok => \A i \in 1..NS : HasCapture(St, i) => R.rerun[i][p] = R.plain[i][p]) \/ Fail("RerunClean")
\* overwriting = simulating the circuit in which that signal is driven with the overwritten values
OverrideIsRedrive == (Ok => LET v == V IN \A i \in 1..NS : HasCapture(St, i) => R.resp[i][p] = Captured(St, v, i)) \/ Fail("OverrideIsRedrive")
=============================================================================
