-------------------------------- MODULE StilT --------------------------------
(***************************************************************************)
(* Verdict specification (layer V) for C18: the pattern arrays assembled   *)
(* by the REAL StilFile.tests(), responses() and tests_loc() against the   *)
(* meaning of the abstract STIL description:                               *)
(*  iface   names of ports and flip-flops in interface order               *)
(*  chains  << [si, so, cells : << name | "!" >> ] >>   scan-in to scan-out *)
(*  pi, po  signal groups _pi / _po (names, group order)                   *)
(*  pats    << [load  : per chain the scan-load string (codes), first      *)
(*              shifted bit first,  unload : per chain the unload string,  *)
(*              lpi, cpi : _pi strings of the launch / capture call,       *)
(*              cpo : _po string of the capture call, haslaunch] >>        *)
(*  st      structure of the circuit (for launch-on-capture next state)    *)
(*  tests, resp, loc : returned arrays [interface position][pattern]       *)
(* Codes of Logic.tla; a clock pulse is PPULSE.                            *)
(***************************************************************************)
EXTENDS Netlist, TLC, Json, IOUtils
Recs == JsonDeserialize(IOEnv.TRACE_FILE)
VARIABLES tid, j
vars == <<tid, j>>
R == Recs[tid]
Init == tid \in 1..Len(Recs) /\ j = 1
Next == j < Len(R.pats) /\ j' = j + 1 /\ UNCHANGED tid
Spec == Init /\ [][Next]_vars
Fail(c) == PrintT(<<"FAIL", "C18", tid, j, c>>) /\ FALSE
NI == Len(R.iface)
P == R.pats[j]
PosOfName(nm) == CHOOSE i \in 1..NI : R.iface[i] = nm
Cells(ch) == SelectSeq(ch.cells, LAMBDA x : x # "!")
\* number of inversion markers between scan-in and the k-th cell (k counted among cells from scan-in), and between it and scan-out
RECURSIVE MarkersBefore(_, _, _, _)
MarkersBefore(cells, k, i, seen) ==      \* scan from the left until the k-th real cell
   IF cells[i] = "!" THEN 1 + MarkersBefore(cells, k, i + 1, seen)
   ELSE IF seen + 1 = k THEN 0 ELSE MarkersBefore(cells, k, i + 1, seen + 1)
NMarkers(cells) == Len(cells) - Len(SelectSeq(cells, LAMBDA x : x # "!"))
InvIn(ch, k) == MarkersBefore(ch.cells, k, 1, 0) % 2
InvOut(ch, k) == (NMarkers(ch.cells) - MarkersBefore(ch.cells, k, 1, 0)) % 2
Flip(v, inv) == IF inv = 1 /\ v \in {ZERO, ONE} THEN ONE - v ELSE v
\* the character shifted first belongs to the cell nearest scan-out
CharFor(str, n, k) == str[n + 1 - k]
\* where interface position i gets its value from
ChainOf(i) == {c \in 1..Len(R.chains) : \E k \in 1..Len(Cells(R.chains[c])) : Cells(R.chains[c])[k] = R.iface[i]}
CellIdx(c, i) == CHOOSE k \in 1..Len(Cells(R.chains[c])) : Cells(R.chains[c])[k] = R.iface[i]
PiIdx(i) == {k \in 1..Len(R.pi) : R.pi[k] = R.iface[i]}
PoIdx(i) == {k \in 1..Len(R.po) : R.po[k] = R.iface[i]}
Loaded(i) == LET c == CHOOSE x \in ChainOf(i) : TRUE
                 n == Len(Cells(R.chains[c]))
                 k == CellIdx(c, i)
             IN Flip(CharFor(P.load[c], n, k), InvIn(R.chains[c], k))
Unloaded(i) == LET c == CHOOSE x \in ChainOf(i) : TRUE
                   n == Len(Cells(R.chains[c]))
                   k == CellIdx(c, i)
               IN Flip(CharFor(P.unload[c], n, k), InvOut(R.chains[c], k))
\* static test: loads at the flip-flops, _pi of the capture call at the inputs, everything else unassigned
ExpTest(i) == IF ChainOf(i) # {} THEN Loaded(i)
              ELSE IF PiIdx(i) # {} THEN P.cpi[CHOOSE k \in PiIdx(i) : TRUE] ELSE UNASSIGNED
ExpResp(i) == IF ChainOf(i) # {} THEN Unloaded(i)
              ELSE IF PoIdx(i) # {} THEN P.cpo[CHOOSE k \in PoIdx(i) : TRUE] ELSE UNASSIGNED
NoException == ~R.raised \/ Fail("NoException")
TestsByChainOrder == (R.raised \/ \A i \in 1..NI : R.tests[i][j] = ExpTest(i)) \/ Fail("TestsByChainOrder")
ResponsesByChainOrder == (R.raised \/ \A i \in 1..NI : R.resp[i][j] = ExpResp(i)) \/ Fail("ResponsesByChainOrder")
\* launch-on-capture: initialisation pattern, one simulated cycle, then the transition per input and flip-flop
HasPulse(str) == \E k \in 1..Len(str) : str[k] = PPULSE
InitPi == IF P.haslaunch THEN P.lpi ELSE P.cpi
InitAsg == [i \in 1..NI |-> IF ChainOf(i) # {} THEN Loaded(i)
                            ELSE IF PiIdx(i) # {} THEN InitPi[CHOOSE k \in PiIdx(i) : TRUE] ELSE UNASSIGNED]
Clocked == P.haslaunch /\ HasPulse(P.lpi) /\ HasPulse(P.cpi)
ExpLocV(v, i) ==
             IF ChainOf(i) # {} THEN (IF Clocked THEN Transition(Loaded(i), Captured(R.st, v, i)) ELSE Transition(Loaded(i), Loaded(i)))
             ELSE IF PiIdx(i) # {} THEN Transition(InitPi[CHOOSE k \in PiIdx(i) : TRUE], P.cpi[CHOOSE k \in PiIdx(i) : TRUE])
             ELSE UNASSIGNED
\* flip-flops are judged for every pattern; inputs only when the capture call carries a clock pulse (without one the
\* statement does not say which of the two input strings forms the second half of the transition)
LocJudged(i) == ChainOf(i) # {} \/ HasPulse(P.cpi)
\* (the simulated cycle is evaluated once per pattern and bound by LET)
TestsLocCombine == (R.raised \/ ~R.loc_checked \/ LET v == Eval(R.st, 8, InitAsg) IN \A i \in 1..NI : LocJudged(i) => R.loc[i][j] = ExpLocV(v, i)) \/ Fail("TestsLocCombine")
\* partially specified patterns (X or - among loads and inputs): definite expectations are exact, the rest stays unknown
TestsLocPartial == (R.raised \/ R.loc_checked
                    \/ LET v == Eval(R.st, 8, InitAsg) IN \A i \in 1..NI : ~LocJudged(i) \/ LET e == ExpLocV(v, i) IN IF e \in {UNKNOWN, UNASSIGNED} THEN R.loc[i][j] \in {UNKNOWN, UNASSIGNED}
                                                                ELSE R.loc[i][j] = e) \/ Fail("TestsLocPartial")
\* machinery: the interface order the specification derives from the structure is the one the record uses
IfaceIsSNodes == (j > 1) \/ (NI = Len(SNodes(R.st)) /\ \A i \in 1..NI : R.iface[i] = NameOf(R.st, SNodes(R.st)[i]) /\ TopoOK(R.st))
                 \/ (PrintT(<<"FAIL", "MACHINERY", tid, j, "IfaceIsSNodes">>) /\ FALSE)
=============================================================================
