----------------------------- MODULE TraverseM -----------------------------
(***************************************************************************)
(* (M) Concrete model of Circuit.topological_order (Kahn's algorithm with  *)
(* a FIFO queue and per-node visit counts, counting CONNECTED input pins,  *)
(* as the code does after fix 6e566da) over ALL small graphs: N nodes,     *)
(* each with NPIN input pins that are unconnected (0) or driven by any     *)
(* node, any subset of nodes being state elements.  Shown: whenever the    *)
(* graph is acyclic after cutting at state elements, the concrete          *)
(* algorithm yields a sequence the abstract specification of Traverse.tla  *)
(* accepts - every node exactly once, drivers first, sources first - i.e.  *)
(* the concrete algorithm refines the abstract order specification.        *)
(* With COUNTALL = TRUE the model counts all pins like the code did before *)
(* the fix; TLC then finds the dropped node (used as a vacuity guard).     *)
(***************************************************************************)
EXTENDS Integers, Sequences, FiniteSets, TLC
CONSTANTS N, NPIN, COUNTALL
Nodes == 1..N
VARIABLES ins,      \* ins[n][k] : driver of pin k of node n, 0 = unconnected
          state,    \* set of state elements
          queue, visit, out, pc
vars == <<ins, state, queue, visit, out, pc>>
Conn(n) == {k \in 1..NPIN : ins[n][k] # 0}
Drivers(n) == {ins[n][k] : k \in Conn(n)}
Source(n) == Conn(n) = {} \/ n \in state
InCount(n) == IF COUNTALL THEN NPIN ELSE Cardinality(Conn(n))
\* acyclic after the cut: every node gets a finite level
RECURSIVE Reach(_, _)
Reach(S, k) == IF k = 0 THEN S ELSE Reach(S \cup UNION {IF m \in state THEN {} ELSE Drivers(m) : m \in S}, k - 1)
Acyclic == \A n \in Nodes : n \in state \/ n \notin Reach(Drivers(n), N)
RECURSIVE SeqOf(_)
SeqOf(S) == IF S = {} THEN <<>> ELSE LET lo == CHOOSE y \in S : \A w \in S : y <= w IN <<lo>> \o SeqOf(S \ {lo})
Init == /\ ins \in [Nodes -> [1..NPIN -> 0..N]]
        /\ state \in SUBSET Nodes
        /\ queue = SeqOf({n \in Nodes : (IF COUNTALL THEN NPIN = 0 ELSE Conn(n) = {}) \/ n \in state})
        /\ visit = [n \in Nodes |-> 0]
        /\ out = <<>> /\ pc = "run"
\* successors of n in output-pin order: (reader, pin) pairs
Succs(n) == SeqOf({e \in {m * 100 + k : m \in Nodes, k \in 1..NPIN} : ins[e \div 100][e % 100] = n})
RECURSIVE Visit(_, _, _, _)
Visit(ss, i, v, q) == IF i > Len(ss) THEN <<v, q>>
                      ELSE LET m == ss[i] \div 100
                               v1 == [v EXCEPT ![m] = @ + 1]
                               q1 == IF v1[m] = InCount(m) /\ m \notin state THEN Append(q, m) ELSE q
                           IN Visit(ss, i + 1, v1, q1)
Step == /\ pc = "run"
        /\ IF queue = <<>> THEN pc' = "done" /\ UNCHANGED <<ins, state, queue, visit, out>>
           ELSE LET n == Head(queue)
                    r == Visit(Succs(n), 1, visit, Tail(queue))
                IN /\ visit' = r[1] /\ queue' = r[2] /\ out' = Append(out, n)
                   /\ UNCHANGED <<ins, state, pc>>
Spec == Init /\ [][Step]_vars
Done == pc = "done"
Before(k) == {out[i] : i \in 1..(k - 1)}
\* the abstract specification accepts the produced sequence
Refines == (Done /\ Acyclic) =>
              /\ Len(out) = N /\ {out[i] : i \in 1..Len(out)} = Nodes                       \* complete, once
              /\ \A k \in 1..Len(out) : Source(out[k]) \/ Drivers(out[k]) \subseteq Before(k)      \* drivers first
              /\ \A k \in 1..Len(out) : Source(out[k]) => \A m \in Before(k) : Source(m)         \* sources first
NoDuplicates == \A i, j \in 1..Len(out) : i # j => out[i] # out[j]
=============================================================================
