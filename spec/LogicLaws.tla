----------------------------- MODULE LogicLaws -----------------------------
(***************************************************************************)
(* (M) The laws named in C02 / C05 / C12 hold for the algebra, for every   *)
(* primitive and every operand tuple (8^4 resp. 4^4 per primitive):        *)
(*  PlaneIsCode8/4 : bit-plane formulas of bp8v_*/bp4v_* = code semantics  *)
(*  Restrict       : on {0,1} every primitive is its Boolean function      *)
(*  XSound         : a 0/1 result is not contradicted by any completion    *)
(*  Proj           : initial/final components = 2-valued function of the   *)
(*                   operands' components (known operands)                 *)
(*  Closed4        : codes 0..3 are closed (4-valued logic is a sub-algebra)*)
(*  DeMorgan, Kary : NOT is the De Morgan dual; k-ary = folded binary      *)
(* One state per primitive so that TLC spreads the work over its workers.  *)
(***************************************************************************)
EXTENDS Prims, TLC
VARIABLE k
Init == k \in PRIMS
Next == UNCHANGED k
Spec == Init /\ [][Next]_k
KnownVals == {0, 3, 4, 5, 6, 7}
PlaneIsCode8 == \A a, b, c, d \in V8 : Un(Bp8Prim(k, Pl(a), Pl(b), Pl(c), Pl(d))) = Prim8(k, a, b, c, d)
M4(v) == v % 4
PlaneIsCode4 == \A a, b, c, d \in V4 : Un(Bp4Prim(k, Pl(a), Pl(b), Pl(c), Pl(d))) = M4(Prim8(k, a, b, c, d))
Restrict == \A a, b, c, d \in 0..1 : Prim8(k, 3*a, 3*b, 3*c, 3*d) = 3 * Prim2(k, a, b, c, d)
XSound == \A a, b, c, d \in V8 :
     LET r == Prim8(k, a, b, c, d) IN
     r \in {ZERO, ONE} => \A a2 \in Compl(a), b2 \in Compl(b), c2 \in Compl(c), d2 \in Compl(d) : Prim8(k, a2, b2, c2, d2) = r
Proj == \A a, b, c, d \in KnownVals :
     LET r == Prim8(k, a, b, c, d) IN
       /\ Known(r)
       /\ Ini(r) = Prim2(k, Ini(a), Ini(b), Ini(c), Ini(d))
       /\ Fin(r) = Prim2(k, Fin(a), Fin(b), Fin(c), Fin(d))
Closed4 == \A a, b, c, d \in V4 : Prim8(k, a, b, c, d) \in V4
\* constant laws (independent of k; evaluated once per state, cheap)
DeMorgan == \A a, b, c \in V8 : /\ Not8(And8(<<a,b,c>>)) = Or8(<<Not8(a), Not8(b), Not8(c)>>)
                                /\ Not8(Or8(<<a,b>>)) = And8(<<Not8(a), Not8(b)>>)
                                /\ Not8(Or8(<<a,b,c>>)) = And8(<<Not8(a), Not8(b), Not8(c)>>)
Kary == \A a, b, c \in V8 : /\ And8(<<a,b,c>>) = And8(<<And8(<<a,b>>), c>>) \/ (~Known(a) \/ ~Known(b) \/ ~Known(c))
                            /\ And8(<<a>>) = (IF Known(a) THEN a ELSE UNKNOWN)
                            /\ Xor8(<<a,b,c>>) = Xor8(<<Xor8(<<a,b>>), c>>)
LutSane == LutOf(k) \in 0..65535
=============================================================================
