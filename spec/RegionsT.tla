------------------------------ MODULE RegionsT ------------------------------
(***************************************************************************)
(* Behaviour beyond the listed properties (X02; reported as EXTRA lines,   *)
(* never as a property violation).                                         *)
(*                                                                         *)
(* kind = "ffr": Circuit.fanout_free_regions().  A node is a STEM when it  *)
(* is a flip-flop or does not have exactly one output pin; every other     *)
(* node hangs on exactly one reader.  The region of a stem is the set of   *)
(* non-stem nodes whose chain of single readers reaches that stem first -  *)
(* a tree rooted at the stem.  The generator yields every stem once, in a  *)
(* reversed topological order, with its region listed root side first.     *)
(* Record: [kind, st (structure + seq), got : << [stem, region] >>,        *)
(*          raised]                                                        *)
(*                                                                         *)
(* kind = "batch": kyupy.batchrange(n, m) tiles 0..n-1 with consecutive    *)
(* batches of m items, the last one shorter; kind = "cdiv": cdiv(x, y) is  *)
(* the ceiling of x / y for y # 0.                                         *)
(***************************************************************************)
EXTENDS Integers, Sequences, FiniteSets, TLC, Json, IOUtils
Recs == JsonDeserialize(IOEnv.TRACE_FILE)
VARIABLE tid
Init == tid \in 1..Len(Recs)
Next == UNCHANGED tid
Spec == Init /\ [][Next]_tid
R == Recs[tid]
Note(c) == PrintT(<<"INFO", "extra", R.uid, R.kind, c>>) /\ FALSE
Ok == ~R.raised
Ffr == R.kind = "ffr"
NoException == Ok \/ Note("NoException")
\* ---- fanout-free regions ----
St == R.st
NN == Len(St.nodes)
Nd(n) == St.nodes[n + 1]
Dff(n) == St.seq[n + 1] = 1
Conn(q) == {q[k] : k \in 1..Len(q)} \ {-1}
Stem(n) == Dff(n) \/ Len(Nd(n).outs) # 1
Readers(n) == {St.lines[x + 1].rdr : x \in Conn(Nd(n).outs)}
Drivers(n) == {St.lines[x + 1].drv : x \in Conn(Nd(n).ins)}
G == R.got
Stems == {G[i].stem : i \in 1..Len(G)}
Reg(i) == {G[i].region[k] : k \in 1..Len(G[i].region)}
\* the stem a non-stem node belongs to: follow the single output line (acyclic, at most NN steps); -1 for a dangling
\* output.  A flip-flop owns only the tree on its data pin (pin 0); what hangs on its other pins belongs to no region.
RECURSIVE Owner(_, _)
Owner(n, k) == IF k = 0 \/ Conn(Nd(n).outs) = {} THEN -1
               ELSE LET x == CHOOSE y \in Conn(Nd(n).outs) : TRUE
                        r == St.lines[x + 1].rdr IN
                    IF Stem(r) THEN (IF Dff(r) /\ Nd(r).ins[1] # x THEN -1 ELSE r) ELSE Owner(r, k - 1)
ExpRegion(s) == {n \in 0..(NN - 1) : ~Stem(n) /\ Owner(n, NN) = s}
StemsAreStems == (Ffr /\ Ok => \A i \in 1..Len(G) : G[i].stem \in 0..(NN - 1) /\ Stem(G[i].stem)) \/ Note("StemsAreStems")
StemsComplete == (Ffr /\ Ok => {n \in 0..(NN - 1) : Stem(n)} \subseteq Stems) \/ Note("StemsComplete")
StemsOnce == (Ffr /\ Ok => \A i, j \in 1..Len(G) : i # j => G[i].stem # G[j].stem) \/ Note("StemsOnce")
RegionIsTree == (Ffr /\ Ok => \A i \in 1..Len(G) : G[i].stem \in 0..(NN - 1) => Reg(i) = ExpRegion(G[i].stem)) \/ Note("RegionIsTree")
RegionOnce == (Ffr /\ Ok => \A i \in 1..Len(G) : Cardinality(Reg(i)) = Len(G[i].region)) \/ Note("RegionOnce")
\* root side first: the reader of a member is the stem or listed before it
RegionRootFirst == (Ffr /\ Ok => \A i \in 1..Len(G) : \A k \in 1..Len(G[i].region) :
                      LET n == G[i].region[k] IN
                      n \in 0..(NN - 1) => Readers(n) \subseteq ({G[i].stem} \cup {G[i].region[j] : j \in 1..(k - 1)})) \/ Note("RegionRootFirst")
\* stems in a reversed topological order: a stem that drives another stem directly comes after it, unless it is a
\* state element (those are yielded first)
StemsReversed == (Ffr /\ Ok => \A i, j \in 1..Len(G) :
                    (i < j /\ G[i].stem \in 0..(NN - 1) /\ G[j].stem \in 0..(NN - 1) /\ G[i].stem \in Drivers(G[j].stem))
                        => St.seq[G[i].stem + 1] # 0) \/ Note("StemsReversed")
\* ---- batchrange / cdiv ----
Batch == R.kind = "batch"
B == R.got
BatchTiles == (Batch /\ Ok =>
                 /\ \A i \in 1..Len(B) : B[i][1] = (i - 1) * R.m
                 /\ \A i \in 1..Len(B) : B[i][2] = (IF i * R.m <= R.n THEN R.m ELSE R.n - (i - 1) * R.m)
                 /\ \A i \in 1..Len(B) : B[i][2] >= 1
                 /\ Len(B) = (IF R.n <= 0 THEN 0 ELSE ((R.n - 1) \div R.m) + 1)) \/ Note("BatchTiles")
Cdiv == R.kind = "cdiv"
CdivIsCeiling == (Cdiv /\ Ok => LET q == R.got IN
                    IF R.y > 0 THEN q * R.y >= R.x /\ (q - 1) * R.y < R.x
                    ELSE q * R.y <= R.x /\ (q - 1) * R.y > R.x) \/ Note("CdivIsCeiling")
=============================================================================
