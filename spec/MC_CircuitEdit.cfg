\* design run (M): 2 names, one cell kind + fork, <= 3 nodes, <= 3 lines, pins <= 2, histories of <= 5 edits
CONSTANTS
  NAMES = {"a", "b"}
  CELLKINDS = {"and"}
  MAXNODES = 3
  MAXLINES = 3
  MAXPIN = 2
  MAXDEPTH = 5
  SUBIMPLS = {}
SPECIFICATION Spec
INVARIANT WF
PROPERTY CloneIdentity
VIEW View
CONSTRAINT DepthBound
CHECK_DEADLOCK FALSE
