CONSTANTS
  NAMES = {"a"}
  CELLKINDS = {"and"}
  MAXNODES = 0
  MAXLINES = 0
  MAXPIN = 0
  MAXDEPTH = 0
  SUBIMPLS = {}
SPECIFICATION TSpec
INVARIANT Conform
CHECK_DEADLOCK FALSE
