SPECIFICATION Spec
INVARIANT NoException
INVARIANT SameResults
INVARIANT SameMemory
INVARIANT UntouchedBeyondK
CHECK_DEADLOCK FALSE
