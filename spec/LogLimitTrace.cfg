CONSTANTS MAXN = 0
 MAXMSG = 0
SPECIFICATION TSpec
INVARIANT NoException
INVARIANT SummaryWritten
INVARIANT WritesAsSpecified
CHECK_DEADLOCK FALSE
