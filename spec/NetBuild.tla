------------------------------ MODULE NetBuild ------------------------------
(***************************************************************************)
(* Circuit generator (R): a builder state machine whose reachable final    *)
(* states are ALL circuits with NIN inputs, NFF flip-flops and up to       *)
(* NGATES gates of the kinds in KINDS, up to naming: gates are added one   *)
(* after the other, every operand is any earlier signal (input, flip-flop  *)
(* output Q or QN, earlier gate) or - if OPEN - an unconnected pin; finally *)
(* every flip-flop's data input is connected to any signal and the last    *)
(* gate is the primary output.  Each final state is printed and built through *)
(* the real Circuit API by the harness (in both netlist styles).           *)
(* Signals are numbered: 1..NIN inputs, then per flip-flop Q and QN, then  *)
(* the gates in order of creation; 0 = unconnected pin.                    *)
(***************************************************************************)
EXTENDS Prims, TLC
CONSTANTS KINDS, NIN, NFF, NGATES, OPEN
VARIABLES gates, ffd, po, pc
vars == <<gates, ffd, po, pc>>
ArityOf(k) == CASE k \in {"buf1", "inv1"} -> 1
                [] k \in {"and2", "nand2", "or2", "nor2", "xor2", "xnor2"} -> 2
                [] k \in {"and3", "nand3", "or3", "nor3", "xor3", "xnor3", "ao21", "aoi21", "oa21", "oai21", "mux21"} -> 3
                [] OTHER -> 4
NBase == NIN + 2 * NFF
NSig == NBase + Len(gates)
Operand == (IF OPEN THEN 0 ELSE 1)..NSig
Init == gates = <<>> /\ ffd = <<>> /\ po = 0 /\ pc = "build"
AddGate(k, ops) == /\ pc = "build" /\ Len(gates) < NGATES
                   /\ \E j \in 1..Len(ops) : ops[j] # 0                 \* at least one pin connected
                   /\ gates' = Append(gates, <<k, ops>>)
                   /\ UNCHANGED <<ffd, po, pc>>
Finish(d, o) == /\ pc = "build" /\ Len(gates) >= 1
                /\ ffd' = d /\ po' = o /\ pc' = "done"
                /\ UNCHANGED gates
Next == \/ \E k \in KINDS : \E ops \in [1..ArityOf(k) -> Operand] : AddGate(k, ops)
        \/ \E d \in [1..NFF -> 1..NSig] : Finish(d, NSig)          \* the last gate is the primary output
Spec == Init /\ [][Next]_vars
Emit == pc = "done" => PrintT(<<"NET", gates, ffd, po>>)
=============================================================================
