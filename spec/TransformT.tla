----------------------------- MODULE TransformT -----------------------------
(***************************************************************************)
(* Verdict trace specification (layer V) for C10: a recorded application   *)
(* of a transformation of the REAL Circuit (copy, pickle round trip,       *)
(* eliminate_1to1_forks, substitute, resolve_tlib_cells and compositions)  *)
(* is judged by the transparent / hierarchical meaning of the netlist      *)
(* before and after (Netlist.EvalH), over ALL assignments of the input     *)
(* ports and state elements.  A library cell before substitution means     *)
(* its implementation's function, pin by pin.                              *)
(* Record: [before, after : structures (+seq, topo for the transparent     *)
(*          cut), lib : kind -> implementation structure, raised]          *)
(* One state per assignment (a = 0 .. 2^sources - 1).                      *)
(***************************************************************************)
EXTENDS Netlist, TLC, Json, IOUtils
Recs == JsonDeserialize(IOEnv.TRACE_FILE)
VARIABLES tid, a
vars == <<tid, a>>
R == Recs[tid]
Lib == R.lib
NSrc == IF R.raised THEN 0 ELSE Len(HSources(R.before, Lib))
Init == tid \in 1..Len(Recs) /\ a = 0
Next == a + 1 < 2 ^ NSrc /\ a' = a + 1 /\ UNCHANGED tid
Spec == Init /\ [][Next]_vars
Fail(c) == PrintT(<<"FAIL", R.pid, tid, a, c>>) /\ FALSE
Ok == ~R.raised
Bit(n, k) == (n \div (2 ^ k)) % 2
SrcV == [i \in 1..NSrc |-> Bit(a, i - 1)]
\* topological order for the transparent cut: every non-source node after the drivers of its connected inputs
TopoOKH(st) == /\ Len(st.topo) = NNodes(st)
               /\ {st.topo[i] : i \in 1..Len(st.topo)} = 0..(NNodes(st) - 1)
               /\ LET src == {HSources(st, Lib)[i] : i \in 1..Len(HSources(st, Lib))} IN
                  \A n \in 0..(NNodes(st) - 1) : n \notin src =>
                     \A x \in ConnIns(st, n) : Pos(st, DriverOf(st, x)) < Pos(st, n)
KnownKinds(st) == \A n \in 0..(NNodes(st) - 1) : LET nd == NodeOf(st, n) IN
                     \/ nd.kind \in {FORK, "input", "output"} \/ n \in IoSet(st) \/ IsInst(Lib, nd)
                     \/ st.seq[n + 1] # 0 \/ Fam(nd.kind) # "?" \/ Len(nd.outs) = 0
Sane == (a > 0) \/ ~Ok \/ (TopoOKH(R.before) /\ KnownKinds(R.before))
        \/ (PrintT(<<"FAIL", "MACHINERY", tid, a, "Sane">>) /\ FALSE)
\* the transformed circuit is a consistent graph: pins and lines reference each other, and it is still acyclic
\* through combinational nodes (the harness could order it)
RefsOK(st) == /\ \A x \in 0..(NLinesOf(st) - 1) : LET L == st.lines[x + 1] IN
                   /\ L.drv \in 0..(NNodes(st) - 1) /\ L.rdr \in 0..(NNodes(st) - 1)
                   /\ L.dpin + 1 \in 1..Len(NodeOf(st, L.drv).outs) /\ NodeOf(st, L.drv).outs[L.dpin + 1] = x
                   /\ L.rpin + 1 \in 1..Len(NodeOf(st, L.rdr).ins) /\ NodeOf(st, L.rdr).ins[L.rpin + 1] = x
              /\ \A n \in 0..(NNodes(st) - 1) :
                   /\ \A k \in 1..Len(NodeOf(st, n).outs) : LET x == NodeOf(st, n).outs[k] IN
                         x # -1 => x \in 0..(NLinesOf(st) - 1) /\ st.lines[x + 1].drv = n /\ st.lines[x + 1].dpin = k - 1
                   /\ \A k \in 1..Len(NodeOf(st, n).ins) : LET x == NodeOf(st, n).ins[k] IN
                         x # -1 => x \in 0..(NLinesOf(st) - 1) /\ st.lines[x + 1].rdr = n /\ st.lines[x + 1].rpin = k - 1
              /\ \A i \in 1..Len(st.io) : st.io[i] \in 0..(NNodes(st) - 1)
AfterWellFormed == (a > 0) \/ ~Ok \/ (RefsOK(R.after) /\ TopoOKH(R.after)) \/ Fail("AfterWellFormed")
Good == Ok /\ RefsOK(R.after) /\ TopoOKH(R.after)
\* resolving / transforming succeeds
NoException == Ok \/ Fail("NoException")
Names(st, q) == [i \in 1..Len(q) |-> NameOf(st, q[i])]
SeqB == Names(R.before, HSeq(R.before, Lib))
SeqA == Names(R.after, HSeq(R.after, Lib))
SetOf(q) == {q[i] : i \in 1..Len(q)}
\* names and order of the ports are unchanged
PortNamesKept == (a > 0 \/ ~Good \/
                    /\ Names(R.before, R.before.io) = Names(R.after, R.after.io)
                    /\ Len(InPorts(R.before)) = Len(InPorts(R.after))) \/ Fail("PortNamesKept")
\* the same state elements exist before and after ...
StateNamesKept == (a > 0 \/ ~Good \/ (Len(SeqA) = Len(SeqB) /\ SetOf(SeqA) = SetOf(SeqB) /\ Cardinality(SetOf(SeqB)) = Len(SeqB))) \/ Fail("StateNamesKept")
\* ... in the same order
StateOrderKept == (a > 0 \/ ~Good \/ SetOf(SeqA) # SetOf(SeqB) \/ Len(SeqA) # Len(SeqB) \/ SeqA = SeqB) \/ Fail("StateOrderKept")
Aligned == Good /\ Len(SeqA) = Len(SeqB) /\ SetOf(SeqA) = SetOf(SeqB) /\ Cardinality(SetOf(SeqB)) = Len(SeqB)
              /\ Len(InPorts(R.before)) = Len(InPorts(R.after)) /\ Len(OutPorts(R.before)) = Len(OutPorts(R.after))
\* position in `before` of the state element that `after` lists at position k (matched by name)
PosB(k) == CHOOSE i \in 1..Len(SeqB) : SeqB[i] = SeqA[k]
NIP == Len(InPorts(R.before))
NOP == Len(OutPorts(R.before))
SrcVA == [i \in 1..NSrc |-> IF i <= NIP THEN SrcV[i] ELSE SrcV[NIP + PosB(i - NIP)]]
\* no unresolved library cell is left behind by resolve
Resolved == (a > 0 \/ ~Good \/ ~R.resolve \/ \A n \in 0..(NNodes(R.after) - 1) : ~IsInst(Lib, NodeOf(R.after, n))) \/ Fail("Resolved")
\* requesting branch forks only inserts forks: the cells (non-fork nodes) are the same (C11)
CellsOf(st) == {<<NodeOf(st, n).name, NodeOf(st, n).kind>> : n \in {m \in 0..(NNodes(st) - 1) : NodeOf(st, m).kind # FORK}}
OnlyForksAdded == (a > 0 \/ ~Good \/ ~R.onlyforks \/ (CellsOf(R.before) = CellsOf(R.after) /\ NNodes(R.after) >= NNodes(R.before))) \/ Fail("OnlyForksAdded")
\* The meaning of an UNCONNECTED instance input pin is "reads 0" - except where the simulation primitives themselves
\* define otherwise: the arity of and/or/xor-type primitives is the highest connected pin, so an open pin that is the
\* LAST operand (position >= 3) of such a primitive shrinks it instead of reading 0.  For those instances the property
\* text does not fix the function; FuncKept is not claimed there.
ReadersOf(st, n) == {x \in 0..(NLinesOf(st) - 1) : st.lines[x + 1].drv = n}
AmbiguousPin(impl, j) ==
    LET port == InPorts(impl)[j]
        rs == ReadersOf(impl, port)
    IN Cardinality(rs) = 1 /\
       LET x == CHOOSE y \in rs : TRUE
           g == NodeOf(impl, impl.lines[x + 1].rdr)
           ppos == impl.lines[x + 1].rpin + 1
       IN Fam(g.kind) \in Variadic /\ ppos >= 3 /\ ppos = HiPin(g.ins)
Ambiguous(st) == \E n \in 0..(NNodes(st) - 1) : LET nd == NodeOf(st, n) IN
                   IsInst(Lib, nd) /\ \E j \in 1..Len(InPorts(Lib[nd.kind])) :
                       (j > Len(nd.ins) \/ nd.ins[j] < 0) /\ AmbiguousPin(Lib[nd.kind], j)
\* the Boolean function observed at ports and state elements is unchanged
FuncKept == (~Aligned \/ Ambiguous(R.before) \/
               LET ob == ObsH(R.before, Lib, SrcV, EvalH(R.before, Lib, SrcV))
                   oa == ObsH(R.after, Lib, SrcVA, EvalH(R.after, Lib, SrcVA))
               IN /\ Len(ob) = Len(oa)
                  /\ \A i \in 1..NOP : ob[i] = oa[i]
                  /\ \A k \in 1..Len(SeqA) : oa[NOP + k] = ob[NOP + PosB(k)]) \/ Fail("FuncKept")
=============================================================================
