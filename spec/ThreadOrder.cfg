SPECIFICATION Spec
INVARIANT Emit
INVARIANT Complete
CHECK_DEADLOCK FALSE
