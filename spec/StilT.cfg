SPECIFICATION Spec
INVARIANT IfaceIsSNodes
INVARIANT NoException
INVARIANT TestsByChainOrder
INVARIANT ResponsesByChainOrder
INVARIANT TestsLocCombine
INVARIANT TestsLocPartial
CHECK_DEADLOCK FALSE
