SPECIFICATION Spec
INVARIANT IfaceIsSNodes
INVARIANT NoException
INVARIANT TestsByChainOrder
INVARIANT ResponsesByChainOrder
INVARIANT TestsLocCombine
CHECK_DEADLOCK FALSE
