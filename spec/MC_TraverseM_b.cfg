\* all graphs with 4 nodes x 2 pins x any state-element subset (6.25 M graphs)
CONSTANTS N = 4
 NPIN = 2
 COUNTALL = FALSE
SPECIFICATION Spec
INVARIANT Refines
INVARIANT NoDuplicates
CHECK_DEADLOCK FALSE
