--------------------------- MODULE WaveEvalTrace ---------------------------
(***************************************************************************)
(* Conformance (layer C, DRIFT only): the kernel model WaveEval.tla is     *)
(* started from a configuration recorded from the real kernel and run to   *)
(* completion; its waveform memory image must equal the recorded one.      *)
(* Fewer than four operands are padded with the constant-0 waveform and    *)
(* zero delays, exactly like the `zero` slot.                              *)
(***************************************************************************)
EXTENDS WaveEval, Json, IOUtils
Recs == JsonDeserialize(IOEnv.TRACE_FILE)
VARIABLE tid
tvars == <<vars, tid>>
Pad(r) == [i \in 1..4 |-> IF i <= Len(r.win) THEN r.win[i] ELSE <<TMAX>>]
PadD(r) == [i \in 1..4 |-> IF i <= Len(r.dl) THEN r.dl[i] ELSE <<<<0,0>>,<<0,0>>>>]
TInit == /\ tid \in 1..Len(Recs)
         /\ LET r == Recs[tid] IN
            /\ ~r.raised
            /\ lut = r.lut /\ win = Pad(r) /\ dl = PadD(r) /\ cap = r.cap
            /\ cur = [i \in Inputs |-> 0] /\ inb = 0
            /\ zc = r.lut % 2 /\ zv = r.lut % 2
            /\ z = IF r.lut % 2 = 1 THEN <<TMIN>> ELSE <<>>
            /\ prev = TMIN
            /\ nxt = [i \in Inputs |-> Add(Pad(r)[i][1], PadD(r)[i][1][(r.lut % 2) + 1])]
            /\ ovf = 0 /\ pc = "loop"
TNext == Next /\ UNCHANGED tid
TSpec == TInit /\ [][TNext]_tvars
Drift(c) == PrintT(<<"DRIFT", "C03", tid, 0, c>>) /\ FALSE
Conform == (pc = "done" => z = Recs[tid].z) \/ Drift("Conform")
\* branch tags of the model while it follows the real configurations (vacuity guard)
TagOvf == (pc = "done" /\ ovf > 0) => PrintT(<<"INFO", "tag", "overflow">>)
=============================================================================
