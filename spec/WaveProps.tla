----------------------------- MODULE WaveProps -----------------------------
(***************************************************************************)
(* Operators and verdict formulas on WAVEFORM MEMORY IMAGES (layer V) for  *)
(* C03, C04, C05, C13.  An image is the sequence of entries of a waveform  *)
(* up to and including its terminator: an optional TMIN (signal starts at  *)
(* 1), transition times, then TMAX or TMAX_OVL (overflow marker).          *)
(* Times live on an integer grid; TMAX = INF, TMAX_OVL = INF + 1,          *)
(* TMIN = -INF are symbolic values far away from every grid time.          *)
(***************************************************************************)
EXTENDS Integers, Sequences, FiniteSets
INF == 1000000
TMAX == INF
TMAXOVL == INF + 1
TMIN == 0 - INF
IsTerm(t) == t >= TMAX
\* well-formed image: exactly one terminator, at the end; TMIN only in front
WellFormed(w) == /\ Len(w) >= 1 /\ IsTerm(w[Len(w)])
                 /\ \A k \in 1..(Len(w) - 1) : ~IsTerm(w[k])
                 /\ \A k \in 2..Len(w) : w[k] > TMIN
InitVal(w) == IF w[1] <= TMIN THEN 1 ELSE 0
NEntries(w) == Len(w) - 1                       \* entries before the terminator (incl. TMIN)
FinalVal(w) == NEntries(w) % 2
FiniteIdx(w) == {k \in 1..Len(w) : w[k] > TMIN /\ w[k] < TMAX}
FiniteTimes(w) == {w[k] : k \in FiniteIdx(w)}
Overflowed(w) == w[Len(w)] = TMAXOVL
MinOf(S) == CHOOSE m \in S : \A x \in S : m <= x
MaxOf(S) == CHOOSE m \in S : \A x \in S : m >= x
Earliest(w) == IF FiniteTimes(w) = {} THEN TMAX ELSE MinOf(FiniteTimes(w))
Latest(w) == IF FiniteTimes(w) = {} THEN TMIN ELSE MaxOf(FiniteTimes(w))
\* value just before time T: parity of the entries (incl. TMIN) strictly before T
ValueBefore(w, T) == (Cardinality({k \in 1..NEntries(w) : w[k] < T})) % 2
StrictlyIncreasing(w) == \A k \in 1..(Len(w) - 2) : w[k] < w[k + 1]
\* rising / falling transitions among the finite entries: entry k (1-based, counting TMIN) toggles to value k % 2
NRise(w) == Cardinality({k \in FiniteIdx(w) : k % 2 = 1})
NFall(w) == Cardinality({k \in FiniteIdx(w) : k % 2 = 0})
\* shifting / scaling the finite times of an image
Shift(w, d) == [k \in 1..Len(w) |-> IF w[k] > TMIN /\ w[k] < TMAX THEN w[k] + d ELSE w[k]]
Scale(w, f) == [k \in 1..Len(w) |-> IF w[k] > TMIN /\ w[k] < TMAX THEN w[k] * f ELSE w[k]]
\* the image a stimulus (initial value, transition time, final value) produces on an interface signal
StimImage(i, t, f) == IF i = 0 /\ f = 0 THEN <<TMAX>> ELSE IF i = 0 /\ f = 1 THEN <<t, TMAX>>
                      ELSE IF i = 1 /\ f = 0 THEN <<TMIN, t, TMAX>> ELSE <<TMIN, TMAX>>
=============================================================================
