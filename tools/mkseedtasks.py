#!/usr/bin/env python3
"""Write the task files for a round of independent seeding sub-agents: tools/mkseedtasks.py <dir> [focus-file]
For every property <dir>/<id>.task holds ONLY the property record (nothing from /verif) plus the working rules."""
import json, os, sys
out = sys.argv[1]
focus = open(sys.argv[2]).read() if len(sys.argv) > 2 else ''
os.makedirs(out, exist_ok=True)
for line in open(os.path.join(os.path.dirname(os.path.abspath(__file__)), '..', 'properties.jsonl')):
    p = json.loads(line)
    wt = '%s/%s' % (out, p['id'])
    anchors = p['anchors']
    t = '''# Task

You are working in a scratch git worktree of the Python library s-holst/kyupy at `%(wt)s` (source under `src/kyupy`, tests under
`tests/`).  Work ONLY inside this directory.  Never read or modify `/repo` or `/verif`.  Do not use `git stash` (the stash is
shared between worktrees); to undo your edits use `git checkout -- .` inside this worktree only.

Below is ONE semantic property that users of kyupy rely on.  Produce THREE different realistic changes to the library source
(`src/kyupy/*.py` only; not the tests) each of which

* BREAKS the property for some input / configuration / history,
* still lets the whole existing test suite pass, unedited:
  `cd %(wt)s && PYTHONPATH=%(wt)s/src /venv/bin/python -m pytest -q -p no:cacheprovider --timeout=900`   (31 passed),
* looks like something a maintainer could plausibly commit (an optimisation, a clean-up, a refactoring slip, a changed
  default, an off-by-one, a wrong index or axis, a dropped special case) - not sabotage, no dead code, no special-casing of test inputs.

%(focus)s
For each change k = 1, 2, 3 write into `%(wt)s/_out/`:

* `patch<k>.diff` - `git diff` of the change against the clean worktree (each patch applies on its own to the clean tree),
* `demo<k>.py`   - a self-contained script (run as `PYTHONPATH=%(wt)s/src /venv/bin/python demo<k>.py`, at most a minute) that exits 0
  and prints `OK` on the clean tree and exits 1 with a one-line description when patch<k> is applied; it must check the PROPERTY
  (an independent expectation), not merely compare with a recorded output,
* `note<k>.md`   - 5-10 lines: what was changed, what it needs to show up, what breaks.

Verify every claim yourself (suite passes with the patch; demo 0 on clean, 1 with patch), then restore the worktree
(`git checkout -- .`) so that only `_TASK.md` and `_out/` are untracked.  numba is not installed: kyupy falls back to pure Python.

# The property

id: %(id)s
title: %(title)s

statement: %(statement)s

quantified over: %(q)s

why the existing tests cannot settle it: %(why)s

where it lives (anchors): 
%(anch)s
''' % dict(wt=wt, focus=focus, id=p['id'], title=p['title'], statement=p['statement'], q=p['quantifier']['text'], why=p['why_tests_cant'],
           anch=json.dumps(anchors, indent=1))
    open('%s/%s.task' % (out, p['id']), 'w').write(t)
print('written', out)
