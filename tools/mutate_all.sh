#!/bin/sh
# usage: tools/mutate_all.sh [n per file] [seed] [jobs] [out dir]  -- mutation sweep over every source file of kyupy (see mutate.py)
N=${1:-24}; SEED=${2:-1}; JOBS=${3:-4}; OUT=${4:-/tmp/mutres}
cd "$(dirname "$0")/.." || exit 2
for f in sdf.py stil.py def_file.py bench.py verilog.py techlib.py logic.py __init__.py circuit.py logic_sim.py sim.py wave_sim.py; do
  /venv/bin/python tools/mutate.py $f --n $N --seed $SEED --jobs $JOBS --out $OUT
done
