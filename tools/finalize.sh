#!/bin/sh
# usage: tools/finalize.sh   -- regenerate every evidence file on the current /repo with the default seed (quick tier), then
# validate MANIFEST.json and evidence/*.json against the schemas.  Prints one line per check; exit 1 if any check did not exit 0.
cd "$(dirname "$0")/.." || exit 2
bad=0
for i in 01 02 03 04 05 06 07 08 09 10 11 12 13 14 15 16 17 18 19 20; do
  ./check C$i > /tmp/fin_$$.log 2>&1; rc=$?
  echo "C$i rc=$rc $(grep -E '^C[0-9]+ (held|VIOLATED)|^MACHINERY' /tmp/fin_$$.log | tail -1)"
  grep -E '^(VIOLATION|KNOWN-FINDING)' /tmp/fin_$$.log | cut -c1-160
  [ $rc -eq 0 ] || bad=1
done
for x in X01 X02 X03; do ./check $x > /tmp/fin_$$.log 2>&1; echo "$x rc=$? $(tail -1 /tmp/fin_$$.log)"; done
rm -f /tmp/fin_$$.log
python3-vt - <<'PY' || bad=1
import json, glob, jsonschema
m = json.load(open('MANIFEST.json')); jsonschema.validate(m, json.load(open('/root/.vp/MANIFEST.schema.json')))
es = json.load(open('/root/.vp/EVIDENCE.schema.json'))
n = 0
for f in sorted(glob.glob('evidence/C*.json')):
    jsonschema.validate(json.load(open(f)), es); n += 1
print('MANIFEST and %d evidence files valid' % n)
PY
exit $bad
