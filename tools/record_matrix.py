#!/usr/bin/env python3
"""tools/record_matrix.py <round> <label> <matrix log>... : write detected_by / first_verdict / round / final_matrix into
seeded/<id>/meta.json from the lines `<id> check=<C> rc=<rc>   what: ...` of tools/matrix.sh."""
import json, os, re, sys
rnd, label = int(sys.argv[1]), sys.argv[2]
res = {}
for f in sys.argv[3:]:
    for ln in open(f):
        m = re.match(r'(C\d+-\d+) check=(\w+) rc=(\d+)\s*(?:what: (.*))?', ln)
        if m:
            res.setdefault(m.group(1), {})[m.group(2)] = (m.group(2), int(m.group(3)), (m.group(4) or '').strip())      # a later log overrides an earlier one
root = os.path.join(os.path.dirname(os.path.abspath(__file__)), '..', 'seeded')
for sid, lst in sorted(res.items()):
    lst = list(lst.values())
    p = os.path.join(root, sid, 'meta.json')
    meta = json.load(open(p))
    det = [c for c, rc, _ in lst if rc == 1]
    meta['detected_by'] = det
    fv = next((w for c, rc, w in lst if rc == 1), '')
    if fv:
        meta['first_verdict'] = fv
    meta.setdefault('round', rnd)
    own = meta['property']
    meta['final_matrix'] = '%s: %s' % (label, ('reported by ' + ', '.join(det)) if det else 'not reported by ' + ', '.join(c for c, _, _ in lst))
    if any(rc not in (0, 1) for _, rc, _ in lst):
        meta['final_matrix'] += ' (machinery exit codes: %s)' % [(c, rc) for c, rc, _ in lst if rc not in (0, 1)]
    json.dump(meta, open(p, 'w'), indent=1)
    print(sid, 'own' if own in det else ('neighbour ' + ','.join(det)) if det else 'MISSED')
