#!/bin/sh
# usage: tools/matrix.sh <repo copy> [glob, e.g. 'C*-[56]']   -- for every seeded change: apply it to the given COPY of the repository, run the
# check of its property (plus checks named in extra.txt), record exit codes and first violation; undo.  Never touches /repo.
R="$1"; PAT="${2:-C*}"; export VERIF_OUT=/tmp/mx_out_$$; cd "$(dirname "$0")/.." || exit 2
[ -d "$R/.git" ] || [ -f "$R/.git" ] || { echo "need a git checkout"; exit 2; }
for d in $(for p in $PAT; do ls -d seeded/$p; done); do
  id=$(basename "$d"); pid=${id%-*}
  git -C "$R" checkout -q -- . ; git -C "$R" apply "$PWD/$d/patch.diff" || { echo "$id APPLY-FAILED"; continue; }
  extra=""; [ -f "$d/extra.txt" ] && extra=$(cat "$d/extra.txt")
  for c in $pid $extra; do
    KYUPY_REPO="$R" ./check $c > /tmp/mx_$$.log 2>&1; rc=$?
    echo "$id check=$c rc=$rc $(grep -m1 -E '^  what' /tmp/mx_$$.log | cut -c1-160)"
  done
  git -C "$R" checkout -q -- .
done
rm -rf /tmp/mx_$$.log /tmp/mx_out_$$
