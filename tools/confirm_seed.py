#!/usr/bin/env python3
"""Confirm seeded changes produced by independent sub-agents and keep the confirmed ones under /verif/seeded/.

For <wt>/_out/{patch,demo,note}<k>: in a fresh scratch worktree of /repo HEAD
  1. demo on the clean tree exits 0,  2. patch applies,  3. the unedited test suite passes (31),
  4. demo with the patch exits non-zero.   usage: confirm_seed.py C01 C02 ..."""
import json, os, shutil, subprocess, sys, re
from concurrent.futures import ThreadPoolExecutor
PY = '/venv/bin/python'


def sh(cmd, cwd=None, env=None, timeout=1200):
    e = dict(os.environ)
    e.update(env or {})
    p = subprocess.run(cmd, shell=True, cwd=cwd, env=e, stdout=subprocess.PIPE, stderr=subprocess.STDOUT, text=True, timeout=timeout)
    return p.returncode, p.stdout


def confirm(pid, k):
    src = '%s/%s/_out' % (os.environ.get('SEED_SRC', '/tmp/wt'), pid)
    patch, demo, note = ['%s/%s%d.%s' % (src, a, k, b) for a, b in (('patch', 'diff'), ('demo', 'py'), ('note', 'md'))]
    if not (os.path.exists(patch) and os.path.exists(demo)):
        return pid, k, 'missing'
    wt = '/tmp/cf/%s-%d' % (pid, k + int(os.environ.get('SEED_OFFSET', '0')))
    shutil.rmtree(wt, True)
    os.makedirs('/tmp/cf', exist_ok=True)
    sh('git -C /repo worktree prune; git -C /repo worktree add -q --detach %s HEAD' % wt)
    env = dict(PYTHONPATH=wt + '/src', PYTHONHASHSEED='0')
    res = {}
    try:
        shutil.copy(demo, wt + '/_demo.py')
        # demos may mention the agent's worktree path explicitly
        txt = open(wt + '/_demo.py').read().replace('%s/%s' % (os.environ.get('SEED_SRC', '/tmp/wt'), pid), wt)
        open(wt + '/_demo.py', 'w').write(txt)
        rc0, out0 = sh('%s _demo.py' % PY, wt, env, 300)
        res['demo_clean_rc'] = rc0
        rca, outa = sh('git apply %s' % patch, wt)
        res['apply_rc'] = rca
        rct, outt = sh('%s -m pytest -q -p no:cacheprovider --timeout=900 -x' % PY, wt, env, 1500)
        m = re.search(r'(\d+) passed', outt)
        res['tests_passed'] = int(m.group(1)) if m else 0
        res['tests_rc'] = rct
        rc1, out1 = sh('%s _demo.py' % PY, wt, env, 300)
        res['demo_patched_rc'] = rc1
        res['demo_patched_tail'] = out1.strip().splitlines()[-3:]
        ok = rc0 == 0 and rca == 0 and rct == 0 and res['tests_passed'] == 31 and rc1 != 0
        res['confirmed'] = ok
        if ok:
            dst = '/verif/seeded/%s-%d' % (pid, k + int(os.environ.get('SEED_OFFSET', '0')))
            os.makedirs(dst, exist_ok=True)
            shutil.copy(patch, dst + '/patch.diff')
            shutil.copy(demo, dst + '/demo.py')
            if os.path.exists(note):
                shutil.copy(note, dst + '/note.md')
            meta = dict(property=pid, source='independent sub-agent given only the property text and a scratch worktree',
                        needs_to_manifest=open(note).read() if os.path.exists(note) else '',
                        confirmed=dict(base_commit=sh('git -C /repo rev-parse --short HEAD')[1].strip(),
                                       ran=['demo on clean tree -> exit 0', 'git apply patch.diff', 'pytest (unedited suite) -> 31 passed',
                                            'demo with patch -> exit %d' % rc1], demo_output_with_patch=res['demo_patched_tail']),
                        detected_by=[])
            json.dump(meta, open(dst + '/meta.json', 'w'), indent=1)
    finally:
        sh('git -C /repo worktree remove --force %s' % wt)
    return pid, k, res


if __name__ == '__main__':
    jobs = [(p, k) for p in sys.argv[1:] for k in (1, 2, 3) if not os.environ.get('SEED_ONLY') or str(k) in os.environ['SEED_ONLY']]
    with ThreadPoolExecutor(max_workers=6) as ex:
        for pid, k, res in ex.map(lambda a: confirm(*a), jobs):
            print(pid, k, res if isinstance(res, str) else {x: res[x] for x in res if x != 'demo_patched_tail'}, flush=True)
