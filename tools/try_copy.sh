#!/bin/sh
# usage: tools/try_copy.sh <patch.diff> <property id>...   -- like try_patch.sh, but on the scratch copy /tmp/rw (KYUPY_REPO)
P="$1"; shift
R=/tmp/rw
[ -d $R ] || git -C /repo worktree add -q --detach $R HEAD      # scratch worktree; remove it when done: git -C /repo worktree remove --force /tmp/rw
git -C $R checkout -q -- . ; git -C $R apply "$P" || { echo "patch does not apply"; exit 2; }
export VERIF_OUT=/tmp/tryc_out
for id in "$@"; do
  ( cd /verif && KYUPY_REPO=$R ./check "$id" ) > /tmp/tryc_$id.log 2>&1
  echo "== $id exit=$? : $(grep -c '^VIOLATION' /tmp/tryc_$id.log) violation line(s)"
  grep -E '^(VIOLATION|KNOWN|MACHINERY|DRIFT|  what)' /tmp/tryc_$id.log | head -6
done
git -C $R checkout -q -- .
