#!/usr/bin/env python3
"""Writes /verif/MANIFEST.json from the table below and validates it against the schema."""
import json, os, sys
V = os.path.dirname(os.path.dirname(os.path.abspath(__file__)))
ALL = ['C%02d' % i for i in range(1, 21)]
BASELINE = "cd /repo && /venv/bin/python -m pytest -ra -q -p no:cacheprovider --timeout=900 --continue-on-collection-errors"
CHECKS = {
 'C08': dict(
    cat='model_checking', ref='DESIGN.md §4 C08, §3 (HeapInv, Heap, Schedule)',
    technique='TLA+/TLC: trace validation of recorded allocator histories against HeapInv.tla; TLC model run of Schedule.tla on the published memory maps; Heap.tla design run + spec-to-code replay',
    text='TLC evaluates the allocator statement (tiling, free list = non-live chunks, coalescing, true high-water mark, no overlap on alloc) after every call of the real Heap in TLC-generated (every distinct state/last-op of the bounded model), seeded random and SimOps-induced histories; the published memory maps of random circuits x capacities x {c_reuse} x {strip_forks} are executed in Schedule.tla (level-wise for all, every interleaving for narrow levels) with operand validity, Pinned, WithinCLen, AliasExact. The concrete model Heap.tla is exhaustively checked inside its bounds and must conform step by step (DRIFT only).',
    note='Trusted: TLC, CommunityModules JSON reader, the harness projection of Heap tables / SimOps arrays, the recording Heap subclass. Histories free only live chunks. Exhaustive only inside the stated model constants; beyond them seeded sampling judged by the spec.'),
 'C01': dict(
    cat='model_checking', ref='DESIGN.md §4 C01, §3 (Prims, Netlist, LogicSimT, LutCheck, LogicLaws)',
    technique='TLA+/TLC: batched trace validation of LogicSim observations against the netlist semantics Netlist.Eval (LogicSimT.tla); TLC check of the published LUT constants (LutCheck.tla) and of the algebra laws (LogicLaws.tla)',
    text='Observations of the real 2-valued LogicSim (plain and callback code path, all c_reuse x strip_forks settings, batch sizes 1..20 incl. non-multiples of 8 with garbage in the padding lanes, 1..4 clock cycles) on circuits with every primitive at every connected-pin pattern and on seeded random circuits are validated by TLC: every captured value must equal the value the TLA+ netlist semantics gives that pin (evaluation node by node from kind names, arity rule, open pins = 0, forks, flip-flop QN inverted, latches; it never looks at ops/c_locs), cycles must equal the iterated next-state function, padding lanes must not matter. The 33 published look-up constants are checked against the Boolean functions.',
    note='Interface-cut convention (DESIGN §5.2): ports and state elements drive their outputs from the assigned value. Trusted: TLC, JSON reader, harness projection; the harness topological order is checked by the spec (TopoOK).'),
 'C02': dict(
    cat='model_checking', ref='DESIGN.md §4 C02, §3 (Logic, Prims, LogicLaws, LogicSimT)',
    technique='TLA+/TLC: exhaustive check of the algebra laws over all operand tuples (LogicLaws.tla); batched trace validation of 4-/8-valued LogicSim observations against Netlist.Eval built from the documented operators (LogicSimT.tla)',
    text='TLC proves on the specification, for all 33 primitives and all 8^4 / 4^4 operand tuples, that the bit-plane formulas equal the code semantics, X-soundness against every completion, the 8->2 projection and closure of the 4-valued sub-algebra. Observations of the real LogicSim (m=4 and m=8, all option settings) on random circuits with stimuli arranged in completion families are validated: captured value = gate-by-gate composition of the documented operators; XSound and Proj8To2 are evaluated directly on the observed results.',
    note='Proj8To2 on lanes with known stimuli only. Interface elements pass the assigned code on unchanged. Trusted: TLC, JSON reader, harness projection.'),
 'C12': dict(
    cat='model_checking', ref='DESIGN.md §4 C12, §3 (Logic, LogicLaws, OpsT)',
    technique='TLA+/TLC: exhaustive check of the algebra laws (LogicLaws.tla); element-wise trace validation of the real operators on the complete operand domain (OpsT.tla)',
    text='Complete enumeration: every operand tuple (8^k, 4^k, k=1..4) of bp8v_*/bp4v_* at every lane position, all 64 pairs / 8 values of mv_* in 1-D, 2-D and broadcast layouts, seeded random shapes up to rank 3, with no out=, zero-filled, stale and (for NOT) aliasing out= arrays; TLC compares every element of the returned array and of the caller\'s array with the documented algebra and the result shape with the broadcast shape. TLC also proves on the specification that the bit-plane formulas equal the code semantics, the Boolean restriction, De Morgan and k-ary = folded binary.',
    note='Public API only (mv_* unary/binary, bp*v_* 1..4 operands). Aliasing out= with an operand is exercised for NOT only (the form the simulator uses); it is not promised for the other operators. Trusted: TLC, JSON reader, NumPy broadcasting used to flatten operands.'),
 'C16': dict(
    cat='model_checking', ref='DESIGN.md §4 C16, §3 (Netlist.EvalO, CallbackT)',
    technique='TLA+/TLC: batched trace validation of recorded callback invocations and results of the real LogicSim against CallbackT.tla (netlist semantics with one signal re-driven)',
    text='The real c_prop is run with a recording callback in all three logics, all option settings, with and without overwriting one random evaluated signal with random values. TLC validates each recording: exactly one invocation per evaluated signal identifying it, operands reported before the signals computed from them (any valid evaluation order is accepted), the view shows the freshly computed value, an untouched run equals the run without callback, and an overwrite equals the TLA+ evaluation of the netlist in which that signal is driven with the overwritten values (downstream reflects it, upstream does not).',
    note='Identity accepted as Line or index. Scratch-slot invocations (gates without output signal) are ignored. Branches of stripped forks are not evaluated signals. Trusted: TLC, JSON reader, harness projection.'),
 'C09': dict(
    cat='model_checking', ref='DESIGN.md §4 C09, §3 (CircuitWF, CircuitEdit, CircuitEditTrace)',
    technique='TLA+/TLC: state-fed trace validation of recorded edit histories of the real Circuit against CircuitWF.tla; exhaustive design run of the concrete editing model CircuitEdit.tla; its behaviours replayed into the real API',
    text='After every public edit of every history TLC evaluates, on the full projection of the real object, that indices equal list positions, name maps resolve to the right node and contain every node once, every line is referenced from exactly the two pins it records, fork outputs are gap-free, ports are nodes of the circuit, statistics match the containers, and copy/pickle yield an equal object with identical projection. Histories: every distinct (canonical state, last edit) of the bounded TLC model (exhaustive to depth 4) replayed through the API, and seeded random histories of 40..400 edits with eliminate, substitute (7 implementation shapes), copy and pickle continuing on the clone. The concrete model (literal swap-with-last, squeeze, name maps) satisfies WF in all reachable states of its bounds and must conform step by step (DRIFT only).',
    note='Well-formed use as stated in the evidence assumptions (explicit pins on free positions, single-driver forks, eliminate only on loop-free forks with drivers, substitute with matching port counts). Trusted: TLC, JSON reader, harness projection.'),
 'C10': dict(
    cat='model_checking', ref='DESIGN.md §4 C10, §3 (Netlist.EvalH, TransformT)',
    technique='TLA+/TLC: batched validation of recorded transformations of the real Circuit against the hierarchical netlist semantics (TransformT.tla), all assignments enumerated as TLC states',
    text='For every cell name of all five built-in libraries in a one-instance host x connected-pin patterns (all, no inputs, no outputs, alternating, each single pin open), for random modules over library cells and random primitive circuits x compositions of copy, pickle, eliminate_1to1_forks, substitute (7 implementation shapes) and resolve_tlib_cells, TLC compares the meaning of the netlist before (a library cell = its implementation, pin by pin; hierarchical evaluation in TLA+) and after over ALL assignments of input ports and state elements, requires unchanged names and order of ports and state elements, no unresolved cell and no exception.',
    note='Transparent meaning (driven ports are ordinary signals). Unconnected instance input = reads 0; FuncKept is not claimed where an open pin is the last operand of an and/or/xor-type primitive (the primitives define arity by the highest connected pin - DESIGN §5.2). <= 7 sources per case. Trusted: TLC, JSON reader, harness projection, checked topological order.'),
 'C19': dict(
    cat='model_checking', ref='DESIGN.md §4 C19, §3 (TechlibT, Netlist.CellOuts)',
    technique='TLA+/TLC: model run of TechlibT.tla on the published pin tables and implementation circuits of all library cells; truth tables enumerated as TLC states',
    text='Complete over the five built-in libraries (1026 names): pins listed once, numbered 0..n-1 in declaration order, in agreement with the implementation ports, every name of a pattern defined, pin names per vendor convention of the library variant; for the 656 cells of a combinational datasheet family (AND/OR/NAND/NOR/XOR/XNOR, buffers, inverters, AO/OA/AOI/OAI groupings incl. 221/222/33/211, MUX2/MUX4, half/full adders) TLC evaluates the implementation circuit with the TLA+ netlist semantics over all 2^n inputs and compares every output pin with the datasheet function its name denotes.',
    note='Trusted: the name -> (family, pin grouping/roles, vendor pin names) classification table in harness/c19.py; TLC, JSON reader, projection. The evaluation is by the specification, not by kyupy\'s simulator (the simulator is bound to the same semantics by C01). Other cell families get pin-table checks only.'),
 'C17': dict(
    cat='model_checking', ref='DESIGN.md §4 C17, §3 (Traverse, Locs)',
    technique='TLA+/TLC: position-by-position validation of the sequences yielded by the real traversal generators against the abstract order specification Traverse.tla; lookup results against Locs.tla',
    text='For seeded random circuits (both styles, unconnected pins, isolated nodes, flip-flops and latches as cut points) TLC validates every position of the sequences yielded by topological_order, topological_order_with_level, topological_line_order, reversed_topological_order and fanin(random origin sets): each node/line exactly once and all of them, drivers before readers, sources first, level = 1 + max level of the connected drivers, mirrored order valid for the reversed graph, fan-in sound (only nodes with a path) and complete (every node with a combinational path). Any valid order is accepted. io_locs/s_locs are compared with the TLA+ bus-nesting function on structurally generated names (6 index styles, gaps, two dimensions, prefix collisions).',
    note='Circuits acyclic after the cut, single-driver forks. Non-origin state elements feeding the cone may or may not be yielded. Prefixes are plain identifiers. Trusted: TLC, JSON reader, harness projection and name rendering.'),
 'C03': dict(
    cat='model_checking', ref='DESIGN.md §4 C03, §3 (WaveProps, WaveEval, KernelT, WaveEvalTrace, WaveSimT)',
    technique='TLA+/TLC: exhaustive design run of the merge-kernel model WaveEval.tla; batched trace validation of the real kernel on the complete configuration domain (KernelT.tla) and of WaveSim/WaveSimCuda on random circuits (WaveSimT.tla); kernel conformance with the model',
    text='The kernel model (one step per loop iteration, identical case split incl. pulse filtering and overflow) satisfies Functional/WithinCap for every configuration of its bounds. The REAL wave_eval_cpu is run on that complete domain (17 424 configurations; thorough adds the 247 808 polarity-dependent ones) and on seeded random configurations (all 33 tables, 1..4 inputs, non-monotone inputs, capacities 4/8/16); TLC checks on its outputs that the waveform starts at the function of the initial values and ends by parity at the function of the final values, also after overflow, inside its capacity. At circuit level every line waveform and the captured initial/final values of WaveSim and WaveSimCuda (random circuits incl. parity-heavy ones, grid and off-grid delays, uniform and per-line capacities, multi-transition inputs, c_reuse/strip_forks variants) are validated against Netlist.Eval of the inputs\' initial/final values.',
    note='Non-negative finite delays; capacities positive multiples of 4; input waveforms of at most 3 entries; GPU path = kernels through MockCuda. Interface-cut convention. Trusted: TLC, JSON reader, harness projection and time encoding.'),
 'C04': dict(
    cat='model_checking', ref='DESIGN.md §4 C04, §3 (WaveProps, WaveEval, KernelT, WaveSimT)',
    technique='TLA+/TLC: design run of the kernel model (Window, EdgeIsInputPlusDelay, Monotone); trace validation of the real kernel on the complete configuration domain (KernelT.tla) and of circuit runs incl. shifted/scaled re-runs (WaveSimT.tla, STA computed by the spec)',
    text='For every line waveform and s[4]/s[5] of the real WaveSim/WaveSimCuda on random circuits, grid delays (polarity dependent and independent) and multi-transition inputs, TLC checks membership in the static-timing window that the SPECIFICATION computes from structure, delays and the actual input transition times; each case is re-run with all inputs shifted and with all times and delays scaled by 2^k and must yield exactly the shifted/scaled waveforms; timestamps strictly increase under polarity-independent delays; all observed times are grid points. At kernel level the same formulas (plus: every output edge = an input edge + one of that line\'s delay entries) are checked on the complete domain of the bounded model and on random configurations; the model itself is checked exhaustively.',
    note='Times on an integer grid (|t| < 2^20: float32 shift/scale exact). Zero fork-input delays with strip_forks. Trusted: TLC, JSON reader, harness projection and time encoding.'),
 'C05': dict(
    cat='model_checking', ref='DESIGN.md §4 C05, §3 (KernelT.Abstracts8, WaveSimT.Abstracts8, LogicLaws)',
    technique='TLA+/TLC: trace validation of paired runs of the real WaveSim and 8-valued LogicSim (WaveSimT.Abstracts8); kernel-level abstraction relation on the complete configuration domain (KernelT.Abstracts8); algebra laws',
    text='Implementation against implementation on the same circuit, delays and {0,1,R,F} stimulus with random option settings of both simulators: the timing simulator\'s captured initial/final values must equal the components of the 8-valued result, and wherever that is a plain 0/1 the waveform must have no transition. At kernel level TLC checks, for the real kernel\'s output on the complete domain of the bounded model and on random configurations with all 33 tables, that the 8-valued abstraction (initial, final, any transition) of the produced waveform is predicted by the documented 8-valued operator applied to the abstractions of the inputs - the reason the relation composes through circuits.',
    note='Stimuli with at most one transition per input. Trusted: TLC, JSON reader, harness projection.'),
 'C06': dict(
    cat='model_checking', ref='DESIGN.md §4 C06, §3 (OptsT)',
    technique='TLA+/TLC: validation of recorded reference/variant run pairs of the real simulators (OptsT.tla: per-lane equality of result digests, memory digests, untouched lanes)',
    text='Per circuit and stimulus a reference run and variant runs over {WaveSim, WaveSimCuda} x {c_reuse} x {strip_forks} x more allocated lanes x permuted lanes x c_prop(sims=k) (lanes >= k of c untouched) x delay dataset chosen globally (mode 0) or per lane (mode 1) versus the run with that dataset alone, finite capture times included; LogicSim in all three logics across options, batch sizes, permutations and the callback path. TLC requires bit-identical per-lane results (raw bytes of s[3..7], s[10] / s[1]) and identical signal memory where the layouts coincide, and names the failing variant.',
    note='Zero delay on fork inputs; modes 0/1; sd = 0; GPU path through MockCuda. Trusted: TLC, JSON reader, SHA-1 digests of raw array bytes.'),
 'C13': dict(
    cat='model_checking', ref='DESIGN.md §4 C13, §3 (WaveSimT.CaptureFaithful/OvlClearMeansExact/CountsMatch, KernelT.CountsMatch)',
    technique='TLA+/TLC: trace validation of capture results and accumulators of the real simulators against their own waveforms (WaveSimT.tla); kernel switching counts on the complete configuration domain (KernelT.tla)',
    text='For random circuits (incl. parity-heavy ones that overflow), multi-transition inputs, capacities 4/8, capture times on and between grid points and TMAX, random accumulation-control tables, CPU and mock-GPU capture: TLC checks s[3..7], s[10] against what the output waveform encodes, that an output with clear overflow indicator has exactly the waveform of the re-run with capacity 64, and that abuf equals the weighted count of rising/falling transitions of the produced waveforms per accumulator and lane. Kernel: returned counts = transitions of the produced waveform for the complete domain of the bounded model and random configurations.',
    note='sd = 0. Capacity 64 stands for unlimited (checked: no marker in that run). Trusted: TLC, JSON reader, harness projection and time encoding.'),
 'C11': dict(
    cat='model_checking', ref='DESIGN.md §4 C11, §3 (TransformT, Netlist.EvalH; harness/hdl.py)',
    technique='TLA+/TLC: the circuit produced by the real Verilog/bench parsers (+ resolve) is validated against the ground-truth netlist of the abstract module with the hierarchical netlist semantics (TransformT.tla), all assignments enumerated as TLC states',
    text='Seeded abstract modules over cells of all five libraries (bus ports with ascending/descending/one-bit ranges, named pins incl. unconnected and constant-tied ones, multi-output cells with arbitrary outputs open, assigns with bit selects, concatenations and sized constants in b/d/h, escaped identifiers) are rendered in several equivalent textual styles (split/merged declarations, statement and pin order, whitespace, comments, attributes), parsed with the real parser for both branchforks settings and resolved. TLC requires: port names in declaration order with bus bits in declared range order, state elements in instantiation order, the same Boolean function as the ground-truth netlist over all assignments, no unresolved cell, branch forks only add forks, and the bench rendering of the same netlist is equivalent.',
    note='The text renderers and the ground-truth builder (harness/hdl.py) are trusted; lexical corner cases are sampled by style variables, not enumerated. Supported subset: flat modules, named pin connections, single-driver signals, no assign chains. <= 7 sources per module.'),
 'C14': dict(
    cat='model_checking', ref='DESIGN.md §4 C14, §3 (SdfT)',
    technique='TLA+/TLC: whole-array validation of the arrays returned by the real SDF annotation against the fold of the abstract entry list through the annotation rules (SdfT.tla)',
    text='Abstract SDF entry lists (IOPATH/INTERCONNECT with pairwise distinct values, posedge/negedge qualifiers, empty triples, missing fields, single value lists) over circuits parsed from rendered Verilog (three libraries, both branchforks settings) are rendered with random groupings into CELL blocks - repeated blocks per instance, several top-level interconnect blocks, several DELAY sections per block, TIMINGCHECK blocks, escaped names - and parsed with the real parser. TLC folds the entries (file order, grouping ignored) into the expected [dataset, line, input polarity, output polarity] array, computing the annotated line from the structure (line feeding the pin; branch-fork or sole line for interconnects), and compares it as a whole with what iopaths()/interconnects() returned, so every other entry must be zero.',
    note='Interconnects only where a branch fork or sole reader exists; no two entries write one cell. Values are multiples of 1/8. Renderers of the harness are trusted. Trusted: TLC, JSON reader, projection.'),
 'C18': dict(
    cat='model_checking', ref='DESIGN.md §4 C18, §3 (StilT, Logic.Transition, Netlist.Eval)',
    technique='TLA+/TLC: validation of the arrays returned by the real StilFile.tests()/responses()/tests_loc() against the meaning of the abstract STIL description (StilT.tla), one TLC state per pattern',
    text='Abstract STIL descriptions - 1-2 scan chains over the flip-flops in scrambled order, inversion markers at every kind of position (before the first cell, between cells, after the last, consecutive), shuffled signal groups, pattern sets with loads, unloads, capture calls with/without clock pulse and optional launch calls, parameter strings split over lines - are rendered to STIL, parsed by the real parser and assembled for circuits whose flip-flops sit at scrambled node positions. TLC recomputes every array entry: first shifted bit = cell nearest scan-out, inversion parity from scan-in (loads) / scan-out (unloads), _pi/_po strings through the groups onto interface positions, and for launch-on-capture the per-input/per-flip-flop transition with the next state obtained from the TLA+ netlist semantics.',
    note='Flip-flop kinds upper-case DFF. Unload strings over H/L/X; tests_loc judged for fully specified 0/1 data with a clock pulse in the capture call. STIL renderer of the harness is trusted. Trusted: TLC, JSON reader, projection.'),
 'C20': dict(
    cat='model_checking', ref='DESIGN.md §4 C20, §3 (DefT)',
    technique='TLA+/TLC: the routing cursor machine of DefT.tla is folded over the abstract wires and compared with the listings of the real DefNet.wires/vias; extracted sections compared field by field with the abstract file',
    text='Seeded abstract DEF files with all supported sections and special/regular nets of 0..3 wire segments (point sequences of up to 6 elements over every wildcard pattern, vias with and without orientation, DO n BY m STEP arrays) are rendered and parsed by the real parser. TLC runs the cursor machine (a * coordinate keeps the previous value, a via sits at the cursor, arrays expand to n x m positions) and requires the per-layer wire listings (width, resolved points) and per-type via listings of every net - special and regular alike - to equal the fold, and units, die area, rows, tracks, via definitions, components, pins and connectivity to equal the file.',
    note='Mostly extraction fidelity (DESIGN §7); the cursor machine is what the model decides. Grammar subset: non-negative coordinates, two-number points, ROUTED wiring. Renderer and section normaliser of the harness are trusted.'),
 'C15': dict(
    cat='model_checking', ref='DESIGN.md §4 C15, §3 (EncodingT)',
    technique='TLA+/TLC: element-wise validation of the results of the real encoding functions against the layout rules of EncodingT.tla (executable statement of the conventions)',
    text='mvarray (k = 1..4 strings, every pattern count 2..17, all alias characters), mv_str, mv_to_bp, bp_to_mv, bparray on all shapes S <= 3(4) x P <= 17 incl. batched, 1-D and single-signal inputs, unpackbits/packbits for all integer dtypes (8..64 bit, signed/unsigned, boundary values, rows shorter/equal/longer than the width) and popcount: TLC recomputes every element from the documented convention (characters, signals on the second-to-last and patterns on the last axis, bit p%8 of byte p/8 per plane, zero padding, little-end bit order, sign/zero padding) and checks result shapes. Round trips follow from the two layout rules.',
    note='Encode/decode fidelity: the specification adds little beyond being an executable reference (DESIGN §4 C15, §7); the value is the complete small-shape enumeration. One-character strings are scalars for interpret() and excluded. Trusted: TLC, JSON reader, Python integer arithmetic for bit sequences.'),
 'C07': dict(
    cat='model_checking', ref='DESIGN.md §4 C07, §3 (Schedule, ThreadOrder, SchedReplay)',
    technique='TLA+/TLC: model run of Schedule.tla on the published schedule (all Begin/End interleavings for narrow levels, level-wise static form for all); TLC-simulated thread orders (ThreadOrder.tla) replayed into the real simulators, judged by SchedReplay.tla',
    text='What the real SimOps published (ops, level partition, memory map) for random circuits x capacities x {c_reuse} x {strip_forks} is executed by TLC: every interleaving of operation begin/end events of every level when the widest level is small, and for all schedules the level-wise form (operands valid at level start + pairwise disjointness of writes against reads/writes); which signal an operand stands for is computed by the spec from the netlist. TLC-generated orders of operations and of (lane, operation) threads are executed on the real LogicSim, WaveSim (rows of ops permuted) and WaveSimCuda (mock launcher order replaced); memories (scratch masked), results and activity counters must be bit-identical to the sequential run.',
    note='Mock-GPU threads run to completion (MockCuda semantics); real GPU memory-model effects are out of reach. Threads of different lanes touch disjoint columns (by construction of the kernels). Trusted: TLC, JSON reader, harness export of SimOps arrays, digests of raw array bytes.'),
}
REASON_PENDING = 'check not built yet in this session (specification and harness under construction); not claimed'


def main():
    checks = []
    for pid in ALL:
        if pid not in CHECKS:
            continue
        c = CHECKS[pid]
        checks.append(dict(property_id=pid, quick_cmd='./check %s --tier quick' % pid,
                           thorough_cmd='./check %s --tier thorough' % pid,
                           evidence_file='/verif/evidence/%s.json' % pid,
                           replay_cmd_template='./check %s --replay {path}' % pid,
                           engine='tlc', technique=c['technique'],
                           level_claimed=dict(category=c['cat'], text=c['text'], design_ref=c['ref']),
                           level_note=c['note']))
    m = dict(version=1, setup_cmd='./setup.sh',
             hooks=dict(guard='KYUPY_VERIF', enable='no source hooks: the harness rebinds kyupy.sim.Heap, the MockCuda launcher functions and permutes rows of sim.ops from outside (DESIGN.md §2.7); KYUPY_VERIF=1 is exported by the harness for future hooks',
                        baseline_off_cmd=BASELINE, source_commits=[], add_only=True),
             engines=[dict(name='tlc', path='/opt/veriftools/tla/tla2tools.jar', serves_properties=sorted(CHECKS),
                           kind_free_text='TLC 1.8 explicit-state model checker: design runs of the concrete models, model runs on published data, batched trace validation of recorded executions of the real code (spec/*.tla, driven by harness/*.py)')],
             checks=checks,
             notes='Only verdict formulas evaluated by TLC raise VIOLATION; conformance with the concrete models is DRIFT (informational). known_findings.json lists fixed defects (12 fix: commits in /repo) and known findings.',
             not_applicable=[dict(property_id=p, reason=REASON_PENDING) for p in ALL if p not in CHECKS])
    json.dump(m, open(os.path.join(V, 'MANIFEST.json'), 'w'), indent=1)
    try:
        import jsonschema
        jsonschema.validate(m, json.load(open('/root/.vp/MANIFEST.schema.json')))
        print('MANIFEST.json valid,', len(checks), 'checks')
    except ImportError:
        print('jsonschema not available; written without validation')


if __name__ == '__main__':
    main()
