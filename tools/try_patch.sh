#!/bin/sh
# usage: tools/try_patch.sh <patch.diff> <property id>...   -- apply a seeded change to /repo, run the checks, undo it
P="$1"; shift
cd /repo || exit 2
if [ -n "$(git status --porcelain --untracked-files=no)" ]; then echo "repo not clean"; exit 2; fi
git apply "$P" || { echo "patch does not apply"; exit 2; }
for id in "$@"; do
  ( cd /verif && ./check "$id" ) > /tmp/try_$id.log 2>&1
  echo "== $id exit=$? : $(grep -c '^VIOLATION' /tmp/try_$id.log) violation line(s)"
  grep -E '^(VIOLATION|KNOWN|MACHINERY|DRIFT|  what)' /tmp/try_$id.log | head -8
done
git -C /repo checkout -- .
