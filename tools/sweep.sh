#!/bin/sh
# usage: tools/sweep.sh "<seeds>" [tier]   -- run every check for each seed, print the verdict lines
cd "$(dirname "$0")/.." || exit 2
for s in $1; do
  for i in 01 02 03 04 05 06 07 08 09 10 11 12 13 14 15 16 17 18 19 20; do
    VERIF_SEED=$s ./check C$i --tier ${2:-quick} > /tmp/sweep_$$.log 2>&1
    rc=$?
    echo "seed=$s C$i rc=$rc $(grep -E '^C[0-9]+ (held|VIOLATED)|^MACHINERY' /tmp/sweep_$$.log | tail -1)"
    grep -E '^(VIOLATION|DRIFT|  what)' /tmp/sweep_$$.log | head -6
  done
done
rm -f /tmp/sweep_$$.log
