#!/venv/bin/python
"""Mutation sweep: how sensitive are the registered checks to small code changes that the repository's tests do not notice?

usage: tools/mutate.py <file under src/kyupy> [--n 25] [--seed 1] [--jobs 4] [--out /tmp/mutres] [--only-list]

For every sampled syntactic mutant of the file (comparison/arithmetic/boolean operator swaps, off-by-one constants,
negated conditions, deleted simple statements) this
  1. copies the working tree of /repo to a scratch directory under /tmp and applies the mutant there (never in /repo),
  2. runs the repository's own test suite on the copy; mutants the suite kills are of no interest,
  3. runs the quick checks of the properties anchored in that file against the copy (KYUPY_REPO, VERIF_OUT diverted),
     stopping at the first check that reports a VIOLATION,
  4. removes the scratch directory.
Survivors (pass the tests, no check fires) are listed for manual triage: equivalent / outside every property / a gap.
Results: <out>/<file>.jsonl, one line per mutant.  Nothing is written under /verif/evidence or /repo.
"""
import argparse
import ast
import concurrent.futures as cf
import json
import os
import random
import shutil
import subprocess
import sys

VERIF = os.path.dirname(os.path.dirname(os.path.abspath(__file__)))
REPO = '/repo'

CHECKS = {
    '__init__.py': ['C15', 'C06', 'C07'],
    'bench.py': ['C11'],
    'circuit.py': ['C09', 'C17', 'C10', 'C11', 'C01'],
    'def_file.py': ['C20'],
    'logic.py': ['C12', 'C15', 'C02', 'C18', 'C05'],
    'logic_sim.py': ['C01', 'C02', 'C16', 'C06', 'C05', 'C18'],
    'sdf.py': ['C14'],
    'sim.py': ['C07', 'C08', 'C01', 'C02', 'C03', 'C13', 'C06', 'C19', 'C05'],
    'stil.py': ['C18'],
    'techlib.py': ['C19', 'C10', 'C11', 'C14'],
    'verilog.py': ['C11', 'C14'],
    'wave_sim.py': ['C03', 'C04', 'C13', 'C06', 'C05', 'C07'],
}

CMP = {ast.Lt: '<=', ast.LtE: '<', ast.Gt: '>=', ast.GtE: '>', ast.Eq: '!=', ast.NotEq: '==', ast.Is: 'is not',
       ast.IsNot: 'is', ast.In: 'not in', ast.NotIn: 'in'}
BIN = {ast.Add: '-', ast.Sub: '+', ast.Mult: '//', ast.FloorDiv: '*', ast.BitAnd: '|', ast.BitOr: '&', ast.BitXor: '&',
       ast.LShift: '>>', ast.RShift: '<<', ast.Mod: '//'}


def offsets(src):
    lines = src.split('\n')
    starts = [0]
    for ln in lines:
        starts.append(starts[-1] + len(ln.encode()) + 1)
    return starts


def mutants(src):
    """Yields (description, new source).  Positions from ast are byte offsets per line; the sources are ASCII-dominant,
    so byte arithmetic on the encoded source is exact."""
    b = src.encode()
    st = offsets(src)
    tree = ast.parse(src)

    def pos(node, end=False):
        return st[(node.end_lineno if end else node.lineno) - 1] + (node.end_col_offset if end else node.col_offset)

    def between(a_end, b_start, new, what, line):
        gap = b[a_end:b_start].decode()
        if '#' in gap or '\n' in gap:
            return None
        lead = len(gap) - len(gap.lstrip(' (')) if False else 0
        newgap = ' ' + new + ' '
        # keep parentheses that belong to the operands
        core = gap.strip()
        if '(' in core or ')' in core:
            pre = gap[:len(gap) - len(gap.lstrip(' )'))]
            post = gap[len(gap.rstrip(' (')):]
            newgap = pre + ' ' + new + ' ' + post
        return ('%s at line %d: `%s` -> `%s`' % (what, line, core, new), (b[:a_end] + newgap.encode() + b[b_start:]).decode())

    docstrings = set()
    for node in ast.walk(tree):
        if isinstance(node, (ast.FunctionDef, ast.ClassDef, ast.Module)) and node.body and isinstance(node.body[0], ast.Expr) \
                and isinstance(node.body[0].value, ast.Constant) and isinstance(node.body[0].value.value, str):
            docstrings.add(id(node.body[0]))
    for node in ast.walk(tree):
        if isinstance(node, ast.Compare) and len(node.ops) == 1 and type(node.ops[0]) in CMP:
            m = between(pos(node.left, True), pos(node.comparators[0]), CMP[type(node.ops[0])], 'compare', node.lineno)
            if m: yield m
        elif isinstance(node, ast.BinOp) and type(node.op) in BIN:
            if isinstance(node.left, ast.Constant) and isinstance(node.left.value, str): continue   # string formatting
            m = between(pos(node.left, True), pos(node.right), BIN[type(node.op)], 'binop', node.lineno)
            if m: yield m
        elif isinstance(node, ast.BoolOp):
            new = 'or' if isinstance(node.op, ast.And) else 'and'
            m = between(pos(node.values[0], True), pos(node.values[1]), new, 'boolop', node.lineno)
            if m: yield m
        elif isinstance(node, ast.UnaryOp) and isinstance(node.op, ast.Not):
            s, e = pos(node), pos(node.operand)
            yield ('drop `not` at line %d' % node.lineno, (b[:s] + b[e:]).decode())
        elif isinstance(node, ast.UnaryOp) and isinstance(node.op, ast.Invert):
            s, e = pos(node), pos(node.operand)
            yield ('drop `~` at line %d' % node.lineno, (b[:s] + b[e:]).decode())
        elif isinstance(node, ast.Constant) and isinstance(node.value, int) and not isinstance(node.value, bool):
            s, e = pos(node), pos(node, True)
            for d in (1, -1):
                if node.value + d < 0: continue
                yield ('constant at line %d: %s -> %d' % (node.lineno, b[s:e].decode(), node.value + d),
                       (b[:s] + str(node.value + d).encode() + b[e:]).decode())
        elif isinstance(node, (ast.If, ast.While, ast.IfExp)):
            s, e = pos(node.test), pos(node.test, True)
            yield ('negate condition at line %d: `%s`' % (node.lineno, b[s:e].decode()[:60]),
                   (b[:s] + b'(not (' + b[s:e] + b'))' + b[e:]).decode())
        elif isinstance(node, (ast.Assign, ast.AugAssign)) or (isinstance(node, ast.Expr) and isinstance(node.value, ast.Call)
                                                                   and id(node) not in docstrings):
            s, e = pos(node), pos(node, True)
            yield ('delete statement at line %d: `%s`' % (node.lineno, b[s:e].decode().split('\n')[0][:70]),
                   (b[:s] + b'pass' + b[e:]).decode())
        elif isinstance(node, (ast.Break, ast.Continue)):
            s, e = pos(node), pos(node, True)
            yield ('%s -> pass at line %d' % (type(node).__name__.lower(), node.lineno), (b[:s] + b'pass' + b[e:]).decode())


def run_one(job):
    k, fname, desc, new_src, outdir = job
    d = '/tmp/mut/%s-%d' % (fname.replace('.py', ''), k)
    shutil.rmtree(d, ignore_errors=True)
    os.makedirs(d)
    res = dict(k=k, file=fname, mutant=desc)
    try:
        subprocess.run(['rsync', '-a', '--exclude', '.git', '--exclude', '__pycache__', '--exclude', '.pytest_cache',
                        REPO + '/', d + '/'], check=True)
        path = os.path.join(d, 'src', 'kyupy', fname)
        with open(path, 'w') as f:
            f.write(new_src)
        try:
            compile(new_src, path, 'exec')
        except SyntaxError as e:
            res['outcome'] = 'syntax-error'
            return res
        env = dict(os.environ, PYTHONPATH=os.path.join(d, 'src'), PYTHONHASHSEED='0', PYTHONDONTWRITEBYTECODE='1')
        try:
            p = subprocess.run(['/venv/bin/python', '-m', 'pytest', '-q', '-x', '-p', 'no:cacheprovider', '--timeout=600'],
                               cwd=d, env=env, stdout=subprocess.PIPE, stderr=subprocess.STDOUT, text=True, timeout=1500)
            tests_ok = p.returncode == 0
        except subprocess.TimeoutExpired:
            tests_ok = False
        if not tests_ok:
            res['outcome'] = 'killed-by-tests'
            return res
        res['checks'] = {}
        env = dict(os.environ, KYUPY_REPO=d, VERIF_OUT=os.path.join(d, 'out'), PYTHONHASHSEED='0')
        env.pop('PYTHONPATH', None)
        for c in CHECKS[fname]:
            try:
                p = subprocess.run([os.path.join(VERIF, 'check'), c], cwd=VERIF, env=env, stdout=subprocess.PIPE,
                                   stderr=subprocess.STDOUT, text=True, timeout=1800)
                rc, out = p.returncode, p.stdout
            except subprocess.TimeoutExpired:
                rc, out = 124, ''
            first = next((ln.strip() for ln in out.split('\n') if ln.startswith('  what')), '')
            if rc not in (0, 1) and not first:
                first = ' | '.join(out.strip().split('\n')[-3:])[:300]
            res['checks'][c] = dict(rc=rc, first=first[:200])
            if rc == 1 and 'VIOLATION' in out:
                res['outcome'] = 'killed-by-' + c
                return res
        res['outcome'] = 'machinery' if any(v['rc'] not in (0, 1) for v in res['checks'].values()) else 'SURVIVED'
        return res
    finally:
        shutil.rmtree(d, ignore_errors=True)
        os.makedirs(outdir, exist_ok=True)
        with open(os.path.join(outdir, fname + '.jsonl'), 'a') as f:
            f.write(json.dumps(res) + '\n')


def main():
    ap = argparse.ArgumentParser()
    ap.add_argument('file')
    ap.add_argument('--n', type=int, default=25)
    ap.add_argument('--seed', type=int, default=1)
    ap.add_argument('--jobs', type=int, default=4)
    ap.add_argument('--out', default='/tmp/mutres')
    ap.add_argument('--lines', default='')      # restrict to a line range a-b
    ap.add_argument('--only-list', action='store_true')
    a = ap.parse_args()
    src = open(os.path.join(REPO, 'src', 'kyupy', a.file)).read()
    ms = list(mutants(src))
    if a.lines:
        lo, hi = map(int, a.lines.split('-'))
        import re
        ms = [m for m in ms if lo <= int(re.search(r'line (\d+)', m[0]).group(1)) <= hi]
    rnd = random.Random(a.seed)
    rnd.shuffle(ms)
    groups = {}                                   # stratify by mutation kind: constants would otherwise dominate
    for m in ms: groups.setdefault(m[0].split(' ')[0], []).append(m)
    ms = []
    while len(ms) < a.n and any(groups.values()):
        for g in sorted(groups):
            if groups[g] and len(ms) < a.n: ms.append(groups[g].pop())
    print('%s: %d mutants sampled' % (a.file, len(ms)))
    if a.only_list:
        for d, _ in ms: print(' ', d)
        return
    jobs = [(a.seed * 1000 + i, a.file, d, s, a.out) for i, (d, s) in enumerate(ms)]
    with cf.ThreadPoolExecutor(a.jobs) as ex:
        for r in ex.map(run_one, jobs):
            print('%-18s %s' % (r.get('outcome'), r['mutant']), flush=True)


if __name__ == '__main__':
    main()
