"""Driving the real LogicSim and recording observations for LogicSimT.tla (C01, C02, C05, C16)."""
import numpy as np

from .project import project, topo


def struct(c):
    """Structure record for Netlist.tla: projection + state-element flags + the harness' own topological order.
    The interface order used for the cut is computed here by the documented rule (ports, flip-flops, latches),
    not taken from the implementation."""
    st = project(c)
    seq = []
    for nd in st['nodes']:
        k = nd['kind'].lower()
        seq.append(1 if 'dff' in k else 2 if 'latch' in k else 0)
    st['seq'] = seq
    st['snodes'] = st['io'] + [i for i, s in enumerate(seq) if s == 1] + [i for i, s in enumerate(seq) if s == 2]
    st['topo'] = topo(st)
    # a second order for the plain (uncut) reading at driven ports; only when such a port has readers
    io = set(st['io'])
    if any(i in io and any(x >= 0 for x in st['nodes'][i]['ins']) and any(x >= 0 for x in st['nodes'][i]['outs']) for i in st['snodes']):
        from .project import topo_natural
        tn = topo_natural(st)
        if len(tn) == len(st['nodes']):
            st['topon'] = tn
    del st['snodes']
    return st


def mv_to_s0(sim, mv, pad_rnd=None):
    """Write an (S x P) array of codes into s[0]; optionally fill the padding lanes of the last byte with garbage."""
    from kyupy import logic
    sim.s[0] = logic.mv_to_bp(np.array(mv, dtype=np.uint8))
    if pad_rnd is not None and sim.sims % 8:
        mask = np.uint8((0xff << (sim.sims % 8)) & 0xff)
        garbage = np.array([[pad_rnd.randint(0, 255) for _ in range(3)] for _ in range(sim.s.shape[1])], dtype=np.uint8)
        sim.s[0, :, :, -1] = (sim.s[0, :, :, -1] & ~mask) | (garbage & mask)


def codes(sim, which, lanes):
    """lanes: number of leading lanes, or a list of lane positions (wide batches: only sampled lanes are recorded)."""
    from kyupy import logic
    mv = logic.bp_to_mv(sim.s[which])
    mv = mv[:, :lanes] if isinstance(lanes, int) else mv[:, list(lanes)]
    if sim.m == 2:
        mv = mv & 1
    elif sim.m == 4:
        mv = mv & 3
    return mv.astype(int).tolist()


def stim_codes(m, stim):
    a = np.array(stim, dtype=np.uint8)
    if m == 2:
        return np.where(a & 1, 3, 0).astype(np.uint8)
    return a


def run_logic(c, m, lanes, stim, reuse=False, strip=False, cb=None, use_cb=False, pad_rnd=None, cycles=0, warm=None, warm_cb=None):
    """One propagation (or `cycles` clock cycles) of the real simulator. stim: codes (bits for m=2) S x lanes."""
    from kyupy.logic_sim import LogicSim
    s = LogicSim(c, sims=lanes, m=m, c_reuse=reuse, strip_forks=strip)
    if warm is not None:        # history: the same simulator object already simulated another pattern set
        mv_to_s0(s, stim_codes(m, warm), None)
        s.s_to_c()
        if warm_cb is not None:
            s.c_prop(inject_cb=warm_cb)     # ... with a callback of its own
        else:
            s.c_prop()
        s.c_to_s()
    mv_to_s0(s, stim_codes(m, stim), pad_rnd)
    if cycles:
        s.cycle(cycles, cb if use_cb else None)
    else:
        s.s_to_c()
        if use_cb:
            s.c_prop(inject_cb=cb)
        else:
            s.c_prop()
        s.c_to_s()
    return s


def rand_stim(rnd, m, slen, lanes, families=True):
    """Random stimulus codes; for m > 2 part of the lanes are 0/1 completions of an earlier lane."""
    alpha = {2: [0, 1], 4: [0, 1, 2, 3], 8: list(range(8))}[m]
    cols = []
    for p in range(lanes):
        if m > 2 and families and cols and rnd.random() < 0.45:
            base = rnd.choice(cols)
            cols.append([v if v not in (1, 2) else rnd.choice([0, 3]) for v in base])
        elif m == 8 and rnd.random() < 0.3:
            cols.append([rnd.choice([0, 3, 4, 5, 6, 7]) for _ in range(slen)])       # all known: Proj8To2 applies
        elif m > 2 and rnd.random() < 0.3:
            cols.append([rnd.choice([0, 3, 0, 3, 1, 2]) for _ in range(slen)])       # mostly 0/1 with some X/-
        else:
            cols.append([rnd.choice(alpha) for _ in range(slen)])
    return [[cols[p][i] for p in range(lanes)] for i in range(slen)]


def record(c, st, m, lanes, stim, reuse, strip, use_cb, rnd, cycles=(), wide=None, force_warm=False):
    """Observation record of the real simulator for LogicSimT.tla.
    wide = [N, positions]: the simulator is built for N patterns (beyond 8- and 16-bit ranges); the recorded stimulus
    columns sit at the given lane positions, all other lanes carry a derived filler; only the sampled lanes are recorded."""
    rec = dict(st=st, m=m, lanes=lanes, stim=stim, resp=[], respB=[], cyc=[], raised=False,
               opts=dict(reuse=reuse, strip=strip, cb=use_cb))
    try:
        noop = (lambda line, v: None)
        warm = rand_stim(rnd, m, len(stim), lanes, families=False) if (rnd.random() < 0.4 or force_warm) else None
        n, sel, full = lanes, lanes, stim
        if wide is not None:
            n, sel = int(wide[0]), [int(x) for x in wide[1]]
            alpha = {2: 2, 4: 4, 8: 8}[m]
            arr = (np.add.outer(np.arange(len(stim)) * 5, np.arange(n) * 3) % alpha).astype(np.uint8)      # deterministic filler
            arr[:, sel] = np.array(stim, dtype=np.uint8)
            full = arr
            warm = None
        a = run_logic(c, m, n, full, reuse, strip, noop, use_cb, warm=warm)
        b = run_logic(c, m, n, full, reuse, strip, noop, use_cb, pad_rnd=rnd)
        rec['resp'] = codes(a, 1, sel)
        rec['respB'] = codes(b, 1, sel)
        if m in (2, 4):
            for k in cycles:
                s = run_logic(c, m, n, full, reuse, strip, noop, use_cb, cycles=k)
                rec['cyc'].append(dict(k=k, s0=codes(s, 0, sel)))
    except Exception as e:
        rec['raised'] = True
        rec['err'] = repr(e)[:300]
    return rec
