"""C15 - Logic-value encodings convert losslessly and follow the axis convention.

(T) the REAL mvarray / mv_str / mv_to_bp / bp_to_mv / bparray / unpackbits / packbits / popcount on all shapes
    S <= 3 x P <= 17 (every pattern count incl. non-multiples of 8, 1-D and batched inputs) with covering value
    assignments, every alias character, all integer dtypes (8..64 bit, signed and unsigned) - each element of every
    result is compared by TLC with the layout rules of EncodingT.tla; round trips follow from the two layout rules.
"""
import random

import numpy as np

from .core import Check, import_kyupy
from . import gen

PID = 'C15'
ALPHA = list('01X-PRFN') + list('LlHhZzrfpnv/^\\') + list('xq?2')


def records(rnd, thorough):
    from kyupy import logic
    import kyupy
    recs = []

    def rec(kind, fn, **kw):
        r = dict(kind=kind, raised=False, **kw)
        try:
            r.update(fn())
        except Exception as e:
            r.update(raised=True, err=repr(e)[:200], got=[], gshape=[])
        recs.append(r)
    # mvarray: k strings of length P over the value alphabet and its aliases
    for k in (1, 2, 3, 4):
        for P in list(range(1, 18)):
            for rep in range(2 if not thorough else 6):
                strs = [''.join(rnd.choice(ALPHA if rep else list('01X-PRFN')) for _ in range(P)) for _ in range(k)]
                if P == 1:
                    continue           # a one-character string is a scalar for interpret(), not a 1-signal pattern

                def f(strs=strs, rep=rep):
                    if rep == 0:
                        # history: an earlier result of the same conversion was modified in place by its owner
                        first = logic.mvarray(*strs)
                        np.bitwise_xor(first, 3, out=first)
                        # ... and so was the list the public interpret() returned for the same strings
                        for sx in strs:
                            lst = logic.interpret(sx)
                            if isinstance(lst, list):
                                lst.reverse()
                                lst[:] = [3 - v if isinstance(v, int) and v in (0, 3) else v for v in lst]
                    a = logic.mvarray(*strs)
                    return dict(got=np.asarray(a).reshape(-1).astype(int).tolist(), gshape=list(np.asarray(a).shape))
                rec('mvarray', f, strs=[list(s) for s in strs])
    # the empty pattern string: no patterns at all
    def f0():
        a = logic.mvarray('')
        return dict(got=np.asarray(a).reshape(-1).astype(int).tolist(), gshape=list(np.asarray(a).shape))
    rec('mvarray', f0, strs=[[]])
    # every alias alone
    for ch in ALPHA:
        def f(ch=ch):
            a = logic.mvarray(ch + ch)
            return dict(got=np.asarray(a).reshape(-1).astype(int).tolist(), gshape=list(np.asarray(a).shape))
        rec('mvarray', f, strs=[[ch, ch]])
    # mv_str
    for S in (1, 2, 3):
        for P in range(1, 18):
            vals = np.array([[(s * 5 + p * 3 + rnd.randint(0, 7)) % 8 for p in range(P)] for s in range(S)], dtype=np.uint8)

            def f(vals=vals):
                t = logic.mv_str(vals)
                return dict(got=[list(x) for x in str(t).split('\n')])
            rec('mv_str', f, vals=vals.reshape(-1).astype(int).tolist(), S=S, P=P)
    for n in (1, 5, 9):
        vals = np.array([rnd.randint(0, 7) for _ in range(n)], dtype=np.uint8)
        rec('mv_str', lambda vals=vals: dict(got=[list(str(logic.mv_str(vals)))]), vals=vals.astype(int).tolist(), S=len(vals), P=1)
    for v in range(8):       # a single value (Python int, numpy scalar, 0-dimensional array) renders as its one character
        for x in (int(v), np.uint8(v), np.array(v, dtype=np.uint8)):
            rec('mv_str', lambda x=x: dict(got=[list(str(logic.mv_str(x)))]), vals=[v], S=1, P=1)
    # mv_to_bp / bp_to_mv: all S <= 3 x P <= 17, optional batch, 1-D
    for A in (0, 2):
        for S in (1, 2, 3):
            for P in range(1, 18):
                shape = ((A,) if A else ()) + (S, P)
                vals = np.array([rnd.randint(0, 7) for _ in range(int(np.prod(shape)))], dtype=np.uint8).reshape(shape)
                nb = (P + 7) // 8

                def f(vals=vals):
                    b = logic.mv_to_bp(vals)
                    return dict(got=b.reshape(-1).astype(int).tolist(), gshape=list(b.shape))
                rec('mv_to_bp', f, vals=vals.reshape(-1).astype(int).tolist(), A=max(A, 1), S=S, P=P, eshape=list(((A,) if A else ()) + (S, 3, nb)))
    for n in (1, 3, 8):
        vals = np.array([rnd.randint(0, 7) for _ in range(n)], dtype=np.uint8)
        rec('mv_to_bp', lambda vals=vals: (lambda b: dict(got=b.reshape(-1).astype(int).tolist(), gshape=list(b.shape)))(logic.mv_to_bp(vals)),
            vals=vals.astype(int).tolist(), A=1, S=n, P=1, eshape=[n, 3, 1])
    for A in (0, 2, 3):
        for S in (1, 2, 3, 4):
            for B in (1, 2, 3):
                shape = ((A,) if A else ()) + (S, 3, B)
                by = np.array([rnd.randint(0, 255) for _ in range(int(np.prod(shape)))], dtype=np.uint8).reshape(shape)

                def f(by=by):
                    m = logic.bp_to_mv(by)
                    return dict(got=m.reshape(-1).astype(int).tolist(), gshape=list(m.shape))
                rec('bp_to_mv', f, vals=by.reshape(-1).astype(int).tolist(), A=max(A, 1), S=S, B=B, eshape=list(((A,) if A else ()) + (S, 8 * B)))
    for B in (1, 2):      # a single signal
        by = np.array([rnd.randint(0, 255) for _ in range(3 * B)], dtype=np.uint8).reshape(3, B)
        rec('bp_to_mv', lambda by=by: (lambda m: dict(got=m.reshape(-1).astype(int).tolist(), gshape=list(m.shape)))(logic.bp_to_mv(by)),
            vals=by.reshape(-1).astype(int).tolist(), A=1, S=1, B=B, eshape=[8 * B])
    # large arrays, judged on sampled bytes (the value of a byte depends on its eight patterns only)
    for (S, P) in ((1000, 5000), (3 * 250, 3001)) if thorough else ((700, 3100),):
        big = np.random.RandomState(rnd.randrange(1 << 30)).randint(0, 8, size=(S, P)).astype(np.uint8)
        bp = logic.mv_to_bp(big)
        back = logic.bp_to_mv(bp)
        for _ in range(40):
            srow, y = rnd.randrange(S), rnd.randrange((P + 7) // 8)
            lo, hi = 8 * y, min(P, 8 * y + 8)
            rec('mv_to_bp', lambda srow=srow, y=y: dict(got=bp[srow, :, y].reshape(-1).astype(int).tolist(), gshape=[1, 3, 1]),
                vals=big[srow, lo:hi].astype(int).tolist(), A=1, S=1, P=hi - lo, eshape=[1, 3, 1])
            rec('mv_str', lambda srow=srow, lo=lo, hi=hi: dict(got=[[('0X-1PRFN'[int(v)])] for v in back[srow, lo:hi]]),
                vals=big[srow, lo:hi].astype(int).tolist(), S=1, P=hi - lo)
    # bparray = mv_to_bp(mvarray(...))
    for k in (1, 3):
        for P in (3, 8, 9):
            strs = [''.join(rnd.choice('01X-PRFN') for _ in range(P)) for _ in range(k)]
            mv = logic.mvarray(*strs)
            if mv.ndim == 1:
                mv2, S_, P_ = mv.reshape(-1, 1), len(mv), 1
            else:
                mv2, S_, P_ = mv, mv.shape[0], mv.shape[1]

            def f(strs=strs):
                b = logic.bparray(*strs)
                return dict(got=b.reshape(-1).astype(int).tolist(), gshape=list(b.shape))
            rec('mv_to_bp', f, vals=mv2.reshape(-1).astype(int).tolist(), A=1, S=S_, P=P_, eshape=[S_, 3, (P_ + 7) // 8])
    # unpackbits / packbits / popcount
    for dt in ('uint8', 'int8', 'uint16', 'int16', 'uint32', 'int32', 'uint64', 'int64'):
        w = np.dtype(dt).itemsize * 8
        info = np.iinfo(dt)
        for shape in ((3,), (2, 2)):
            n = int(np.prod(shape))
            ints = [rnd.choice([info.min, info.max, 0, 1, -1 if info.min < 0 else 2]) if rnd.random() < 0.4 else rnd.randint(info.min, info.max) for _ in range(n)]
            arr = np.array(ints, dtype=dt).reshape(shape)
            bits = [((v & ((1 << w) - 1)) >> k) & 1 for v in ints for k in range(w)]

            def f(arr=arr):
                u = logic.unpackbits(arr)
                return dict(got=u.reshape(-1).astype(int).tolist(), gshape=list(u.shape))
            rec('unpack', f, bits=bits, eshape=list(shape) + [w])
        for n in [1, 2, w - 1, w, w + 1, w + 5, 7]:
            rows = [[rnd.randint(0, 1) for _ in range(n)] for _ in range(3)]
            a = np.array(rows, dtype=bool)

            def f(a=a, dt=dt, w=w):
                p = logic.packbits(a, dtype=dt)
                vals = [int(v) for v in np.asarray(p).reshape(-1)]
                return dict(got=[[((v & ((1 << w) - 1)) >> k) & 1 for k in range(w)] for v in vals])
            rec('pack', f, rows=rows, w=w, signed=dt.startswith('i'))
    for n in (1, 7, 64):
        by = [rnd.randint(0, 255) for _ in range(n)]
        rec('popcount', lambda by=by: dict(got=int(kyupy.popcount(np.array(by, dtype=np.uint8)))), vals=by)
    # scale: more than 2^16 one bits in a single array, and a 2-D array (counts beyond the range of narrow accumulators)
    by = [255] * 8192 + [rnd.randint(0, 255) for _ in range(rnd.randint(100, 900))]
    rec('popcount', lambda by=by: dict(got=int(kyupy.popcount(np.array(by, dtype=np.uint8)))), vals=by)
    by = [rnd.choice([255, 255, 254, 127, rnd.randint(0, 255)]) for _ in range(9600)]
    rec('popcount', lambda by=by: dict(got=int(kyupy.popcount(np.array(by, dtype=np.uint8).reshape(96, 100)))), vals=by)
    return recs


def main(tier=None, replay=None):
    ck = Check(PID, tier)
    import_kyupy()
    rnd = random.Random(ck.seed + 15)
    recs = records(rnd, ck.thorough)
    r = ck.tlc_batch('EncodingT', 'EncodingT', traces=recs, label='T:EncodingT', per_shard=100)
    ck.require_clean(r)
    ck.traces += len(recs)
    ck.evaluations += len(recs)
    for pid, tid, _, clause in r.fails:
        x = recs[tid - 1]
        brief = {k: (v if not isinstance(v, list) or len(v) < 40 else v[:40]) for k, v in x.items()}
        ck.violation('%s:%s:%s' % (clause, x['kind'], gen.digest(brief)), '%s fails for %s %s' % (clause, x['kind'], x.get('err', '')), dict(kind='enc', record=brief))
    for x in recs:
        ck.count('kind:' + x['kind'])
        ck.nontrivial.add(gen.digest(x))
    ck.need_cover(['kind:' + k for k in ('mvarray', 'mv_str', 'mv_to_bp', 'bp_to_mv', 'unpack', 'pack', 'popcount')])
    ck.sample(dict(mvarray_strings=recs[5]['strs'], values=recs[5]['got'], shape=recs[5]['gshape']))
    ck.extra['exhaustive'] = False
    ck.assumptions += ['encode/decode fidelity: the specification is an executable statement of the conventions (DESIGN §4 C15)',
                       'integers are exchanged as bit sequences computed with Python integer arithmetic', 'TLC, JSON reader']
    return ck.finish('all shapes S <= 3(4) x P <= 17 (every pattern count), batched and 1-D inputs, all alias characters, k = 1..4 strings; dtypes '
                     '{u,i}{8,16,32,64} with boundary and random values; bit rows shorter, equal and longer than the width; distinct by record digest')
