"""Helpers that drive the real simulators (LogicSim, WaveSim, WaveSimCuda) and collect observations."""
import hashlib

import numpy as np


def dig(a):
    return hashlib.sha1(np.ascontiguousarray(np.array(a)).tobytes()).hexdigest()[:16]


def rand_wave_stim(rnd, slen, sims, tmax=9):
    """(initial value, transition time, final value) per s_node and lane; times on an integer grid."""
    s0 = np.array([[rnd.randint(0, 1) for _ in range(sims)] for _ in range(slen)], dtype=np.float32).reshape(slen, sims)
    s1 = np.array([[rnd.randint(0, tmax) for _ in range(sims)] for _ in range(slen)], dtype=np.float32).reshape(slen, sims)
    s2 = np.array([[rnd.randint(0, 1) for _ in range(sims)] for _ in range(slen)], dtype=np.float32).reshape(slen, sims)
    return s0, s1, s2


def rand_actrl(rnd, c, naccu=3):
    a = np.zeros((len(c.lines) + 3, 3), dtype=np.int32)
    for i in range(len(a)):
        a[i] = [rnd.choice([-1, -1, 0, 1, naccu - 1]), rnd.randint(-3, 3), rnd.randint(-3, 3)]
    a[len(c.lines):, 0] = -1
    return a


def level_perm_from_order(levels, order):
    """order: list of (level, pos, lane) -> per level the sequence of distinct op positions (first lane occurrence)."""
    per = [[] for _ in levels]
    for l, pos, lane in order:
        if (pos - 1) not in per[l - 1]:
            per[l - 1].append(pos - 1)
    return per


def permute_ops(sim, per):
    """Permute the rows of sim.ops inside [level_starts[i], level_stops[i]) - the observation point C07 names."""
    ops = np.array(sim.ops)
    new = ops.copy()
    for (a, b), p in zip(zip(np.array(sim.level_starts), np.array(sim.level_stops)), per):
        assert sorted(p) == list(range(b - a)), (p, a, b)
        new[a:b] = ops[a:b][p]
    sim.ops[...] = new


class OrderedLauncher:
    """Replacement for a MockCuda launcher object: visits the (x, y) grid in a prescribed order.
    thread_orders: list (one per launch) of lists of (x, y); grid threads not listed are inserted at seeded positions."""

    def __init__(self, func, cuda, thread_orders, rnd):
        self.func = func
        self.cuda = cuda
        self.orders = list(thread_orders)
        self.rnd = rnd
        self.launch = 0
        self.visited = 0
        self.out_of_range = 0

    def __call__(self, *a, **k):
        return self.func(*a, **k)

    def __getitem__(self, item):
        grid_dim, block_dim = item

        def inner(*args, **kwargs):
            nx, ny = grid_dim[0] * block_dim[0], grid_dim[1] * block_dim[1]
            listed = list(self.orders[self.launch]) if self.launch < len(self.orders) else []
            self.launch += 1
            ls = set(listed)
            rest = [(x, y) for x in range(nx) for y in range(ny) if (x, y) not in ls]
            self.rnd.shuffle(rest)
            self.out_of_range += len(rest)
            threads = list(listed)
            for t in rest:                       # launcher threads outside the (lane, op) range return immediately
                threads.insert(self.rnd.randint(0, len(threads)), t)
            for x, y in threads:
                self.cuda.x, self.cuda.y = x, y
                self.func(*args, **kwargs)
                self.visited += 1
        return inner


def observe_wave(w, mask_scratch=True):
    c = np.array(w.c).copy()
    if mask_scratch:
        locs, caps = np.array(w.c_locs), np.array(w.c_caps)
        for t in (w.tmp_idx, w.tmp2_idx):
            c[locs[t]:locs[t] + caps[t]] = 0
    return dict(c=dig(c), s=dig(np.array(w.s)[3:]), a=dig(np.array(w.abuf)))


def observe_logic(s):
    c = np.array(s.c).copy()
    for t in (s.tmp_idx, s.tmp2_idx):
        c[s.c_locs[t]] = 0
    return dict(c=dig(c), s=dig(s.s[1]), a='-')
