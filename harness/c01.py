"""C01 - 2-valued logic simulation computes the netlist's Boolean function (and C02 shares the driver).

(T) observations of the real LogicSim (both 2-valued code paths, all c_reuse x strip_forks settings, batch sizes
    1..20, k <= 4 cycles, padding lanes filled with garbage) judged by LogicSimT.tla against Netlist.Eval;
(M on published data) LutCheck.tla: the 33 published look-up constants are the tables of their Boolean functions;
(M) LogicLaws.tla: the primitives' Boolean functions are the restriction of the documented algebra.
"""
import random

from .core import Check, MachineryError, import_kyupy
from . import gen, lsim

PID = 'C01'


def driven_port_circuit():
    """Deterministic case of the known finding DrivenPortsAreSignals:SimOps: output z is also read by the inverter."""
    from kyupy import bench
    return bench.parse('input(a,b) output(z,y) z=and(a,b) y=not(z)')


def make_circuits(ck, rnd, n):
    cs = [gen.one_of_each('v'), gen.one_of_each('b')]
    # every primitive at every connected-pin pattern (arity rule, interior open pins)
    cs += arity_circuits()
    for t in range(n):
        cs.append(gen.gen_circuit(rnd, max_gates=ck.pick(8, 16), max_in=4, max_ff=ck.pick(2, 4)))
    # implementation circuits of library cells, simulated as they are: gates wired to gates and ports without a fork in
    # between (fork elimination has run on them), line 0 feeding a gate, several gates of one kind with different arities
    from .c10 import libs
    seen, impls = set(), []
    for lname, tlib in sorted(libs().items()):
        for name, (impl, pins) in sorted(tlib.cells.items()):
            if id(impl) not in seen and 2 <= len(impl.nodes) <= 40 and len(impl.lines) > 0:
                seen.add(id(impl))
                impls.append(impl)
    for impl in rnd.sample(impls, min(len(impls), ck.pick(30, 200))):
        cs.append(impl.copy())
    cs.append(driven_port_circuit())
    return cs


def arity_circuits():
    """For each variadic family and each non-empty subset of the four pins one gate; plus fixed-arity cells with one pin open."""
    from itertools import combinations
    Circuit, Node, Line = gen.kyupy_mods()
    out = []
    for fam in ('and', 'NAND', 'or', 'NOR3', 'xor', 'XNOR4', 'AO21', 'OA22', 'AOI211', 'MUX21', 'OAI21', 'AO22'):
        c = Circuit('arity_' + fam)
        ins = []
        for i in range(4):
            p = Node(c, f'i{i}', 'input'); c.io_nodes.append(p); f = Node(c, f'i{i}'); Line(c, p, f); ins.append(f)
        g = 0
        for r in (1, 2, 3, 4):
            for pins in combinations(range(4), r):
                if fam[:2] in ('AO', 'OA', 'MU') and max(pins) >= gen.ARITY.get(fam, 4):
                    continue
                n = Node(c, f'g{g}', fam)
                for j in pins:
                    Line(c, ins[j], (n, j))
                f = Node(c, f'g{g}'); Line(c, n, f)
                o = Node(c, f'o{g}', 'output'); c.io_nodes.append(o); Line(c, f, o)
                g += 1
        out.append(c)
    return out


def tlc_circuits(ck, rnd, limit):
    """(R) all circuits of a bounded builder state machine (NetBuild.tla), built through the real Circuit API."""
    from .core import extract_values
    kinds3 = rnd.sample(sorted(k.lower() for k in gen.ALL_PRIMS if gen.ARITY[k] <= 3), 3)
    cfg = 'CONSTANTS KINDS = {%s}\n NIN = 2\n NFF = 1\n NGATES = 2\n OPEN = %s\nSPECIFICATION Spec\nINVARIANT Emit\nCHECK_DEADLOCK FALSE\n' % (
        ', '.join('"%s"' % k for k in kinds3), 'TRUE' if ck.thorough else 'FALSE')
    r = ck.tlc('NetBuild', cfg_text=cfg, workers=1, label='gen:NetBuild', cont=False, timeout=1500)
    ck.require_clean(r, allow_violation=False)
    nets_ = {}
    for v in extract_values(r.out, 'NET'):
        nets_[str(v)] = v
    nets_ = list(nets_.values())
    if len(nets_) < 50:
        raise MachineryError('NetBuild produced only %d circuits' % len(nets_))
    ck.count('tlc-circuits-enumerated', len(nets_))
    rnd.shuffle(nets_)
    out = []
    for _, gates, ffd, po in nets_[:limit]:
        out.append(build_net(gates, ffd, po, rnd.choice(['v', 'b'])))
    ck.extra['netbuild'] = 'KINDS=%s NIN=2 NFF=1 NGATES=2: %d circuits enumerated, %d built' % (kinds3, len(nets_), len(out))
    return out


def build_net(gates, ffd, po, style):
    Circuit, Node, Line = gen.kyupy_mods()
    c = Circuit('net')
    sig = []
    for i in range(2):
        if style == 'v':
            p = Node(c, 'i%d' % i, 'input'); c.io_nodes.append(p); f = Node(c, 'i%d' % i); Line(c, p, f)
        else:
            f = Node(c, 'i%d' % i); c.io_nodes.append(f)
        sig.append(f)
    ff = Node(c, 'ff0', 'DFF')
    q = Node(c, 'ff0'); Line(c, (ff, 0), q)
    qn = Node(c, 'ff0n'); Line(c, (ff, 1), qn)
    sig += [q, qn]
    for k, (kind, ops) in enumerate(gates):
        g = Node(c, 'g%d' % k, kind.upper())
        for j, o in enumerate(ops):
            if o:
                Line(c, sig[o - 1], (g, j))
        f = Node(c, 'g%d' % k); Line(c, g, f)
        sig.append(f)
    Line(c, sig[ffd[0] - 1], (ff, 0))
    if style == 'v':
        o = Node(c, 'o', 'output'); c.io_nodes.append(o); Line(c, sig[po - 1], o)
    else:
        c.io_nodes.append(sig[po - 1])
    return c


def records(ck, rnd, circuits, ms, per_circuit_opts=None):
    recs, meta = [], []
    for ci, c in enumerate(circuits):
        st = lsim.struct(c)
        slen = len(c.s_nodes)
        for m in ms:
            lanes = rnd.choice([1, 2, 3, 5, 7, 8, 9, 11, 13, 16, 17, 20]) if ci > 1 else 16
            if ci <= 1 + 12 and ci > 1:
                lanes = 16
            stim = lsim.rand_stim(rnd, m, slen, lanes) if ci > 13 or m > 2 else \
                [[(p >> (i % 4)) & 1 for p in range(lanes)] for i in range(slen)]
            static = m == 8 and ci > 13 and rnd.random() < 0.2
            if static:
                # history: a batch WITHOUT any transition (codes 0, 1, X, -) on a simulator that has just simulated transitions
                stim = [[rnd.choice([0, 3, 0, 3, 1, 2]) for _ in range(lanes)] for _ in range(slen)]
            opts = [(r, s) for r in (False, True) for s in (False, True)]
            if not ck.thorough and ci > 13:
                opts = rnd.sample(opts, 2)
            for reuse, strip in opts:
                for use_cb in ((False, True) if m == 2 else (False,)):
                    cyc = (1, 2, 3, 4) if (m in (2, 4) and rnd.random() < (0.6 if any(x for x in st['seq']) else 0.15)) else ()      # (also circuits without any state element)
                    wide = None
                    if ci > 13 and ci % 9 == 0:
                        # scale: batches beyond 8- and 16-bit lane counts; the recorded lanes sit at and around the boundaries
                        n = rnd.choice([257, 300, 65537, 70001])
                        pos = sorted(set([0, 255, 256, n - 1] + [x for x in (65535, 65536) if x < n] + [rnd.randrange(n) for _ in range(lanes)]))[:lanes] if lanes >= 4 else None
                        if pos is not None and len(pos) == lanes:
                            wide = [n, pos]
                    rec = lsim.record(c, st, m, lanes, stim, reuse, strip, use_cb, rnd, cycles=cyc, wide=wide, force_warm=static)
                    recs.append(rec)
                    meta.append(dict(circuit=gen.circuit_state(c), m=m, lanes=lanes, stim=stim, reuse=reuse, strip=strip, cb=use_cb, cyc=list(cyc), wide=wide, static=static))
        if ci > 13 and len(c.io_nodes) >= 2 and rnd.random() < 0.2:
            # history: the SAME circuit object after its port list was reordered (io_nodes is a public list; numbers of nodes and
            # lines unchanged) - a simulator built now follows the new order of ports
            i, j = rnd.sample(range(len(c.io_nodes)), 2)
            before = gen.circuit_state(c)
            c.io_nodes[i], c.io_nodes[j] = c.io_nodes[j], c.io_nodes[i]
            st2 = lsim.struct(c)
            m = 2
            lanes = rnd.choice([5, 8, 13])
            stim = lsim.rand_stim(rnd, m, slen, lanes)
            reuse, strip = rnd.random() < 0.5, rnd.random() < 0.5
            cyc = (1, 2) if any(x for x in st2['seq']) else ()
            recs.append(lsim.record(c, st2, m, lanes, stim, reuse, strip, False, rnd, cycles=cyc))
            meta.append(dict(circuit=gen.circuit_state(c), m=m, lanes=lanes, stim=stim, reuse=reuse, strip=strip, cb=False, cyc=list(cyc), wide=None, static=False,
                             history=dict(before=before, swap=[i, j])))
            ck.count('ports-reordered-between-simulators')
    return recs, meta


def ops_model(ck, rnd, circuits):
    """The published operation list executed by the concrete model OpsExecT.tla: equals the real signal memory (DRIFT)
    and equals the netlist meaning (verdict on published data)."""
    import numpy as np
    from kyupy.logic_sim import LogicSim
    recs, cs = [], []
    for c in rnd.sample(circuits, min(len(circuits), ck.pick(60, 600))):
        st = lsim.struct(c)
        lanes = rnd.choice([1, 3, 4])
        stim = lsim.rand_stim(rnd, 2, len(c.s_nodes), lanes)
        try:
            s = lsim.run_logic(c, 2, lanes, stim)
        except Exception:
            continue        # reported by the trace check above
        cv = [[int((s.c[s.c_locs[x], 0, p // 8] >> (p % 8)) & 1) for p in range(lanes)] for x in range(len(c.lines))]
        recs.append(dict(st=st, lanes=lanes, stim=stim, ops=[[int(v) & 0xffff if j == 0 else int(v) for j, v in enumerate(op[:6])] for op in s.ops], cvals=cv))
        cs.append(c)
    r = ck.tlc_batch('OpsExecT', 'OpsExecT', traces=recs, label='M:OpsExecT', per_shard=10, timeout=1700)
    ck.require_clean(r)
    for d in r.drifts[:10]:
        ck.drift('OpsExecT.tla: a line value in the real signal memory differs from the model executing the published operations (record %d lane %d)' % (d[1], d[2]))
    for pid, tid, p, clause in r.fails:
        ck.violation('ops:%s:%s' % (clause, gen.digest(gen.circuit_state(cs[tid - 1]))), 'the published operation list does not compute the netlist (lane %d)' % p,
                     dict(kind='ops', circuit=gen.circuit_state(cs[tid - 1])))
    ck.count('op-lists-executed-by-model', len(recs))


def judge(ck, recs, meta, pids):
    r = ck.tlc_batch('LogicSimT', 'LogicSimT', traces=recs, label='T:LogicSimT', per_shard=60, timeout=3400)
    ck.require_clean(r)
    ck.traces += len(recs)
    ck.evaluations += sum(x['lanes'] for x in recs)
    for pid, tid, p, clause in r.fails:
        if pid == 'MACHINERY':
            raise MachineryError('record %d is not sane for the specification (topological order / unknown kind)' % tid)
        if pid not in pids:
            continue
        mt = meta[tid - 1]
        if clause == 'DrivenPortsAreSignals':
            # one call site (SimOps treats every port with readers as a source), whatever the circuit: DESIGN 11.6
            ck.violation('DrivenPortsAreSignals:SimOps', 'a port that has a driver feeds its readers from the assigned value', dict(kind='logic', input=mt, lane=p, clause=clause))
            ck.count('records-with-a-driven-port-read-internally-judged-plainly')
            continue
        ck.violation('%s:%s:m%d:r%ds%dc%d' % (clause, gen.digest(mt['circuit']), mt['m'], mt['reuse'], mt['strip'], mt['cb']),
                     '%s fails in lane %d (m=%d, c_reuse=%s, strip_forks=%s, callback path=%s)%s' % (
                         clause, p, mt['m'], mt['reuse'], mt['strip'], mt['cb'], ' ' + recs[tid - 1].get('err', '') if recs[tid - 1]['raised'] else ''),
                     dict(kind='logic', input=mt, lane=p, clause=clause))
    return r


def replay_case(ck, case, pids):
    if case.get('kind') == 'ops':
        ops_model(ck, random.Random(ck.seed), [gen.circuit_from_state(case['circuit'])])
        return
    if case.get('kind') == 'lut':
        return
    if case.get('kind') == 'chains':
        g, o = case['gen'], case['opts']
        judge_chains(ck, [chains_record(g[0], g[1], g[2], g[3], g[4], o['reuse'], o['strip'], o['cb'])], pids)
        return
    mt = case['input']
    if mt.get('history'):
        # the object was simulated in its earlier port order, then two ports were swapped, then a new simulator was built
        from kyupy.logic_sim import LogicSim
        c = gen.circuit_from_state(mt['history']['before'])
        LogicSim(c, sims=8, m=2)
        i, j = mt['history']['swap']
        c.io_nodes[i], c.io_nodes[j] = c.io_nodes[j], c.io_nodes[i]
    else:
        c = gen.circuit_from_state(mt['circuit'])
    st = lsim.struct(c)
    rec = lsim.record(c, st, mt['m'], mt['lanes'], mt['stim'], mt['reuse'], mt['strip'], mt['cb'], random.Random(ck.seed), cycles=mt.get('cyc', ()), wide=mt.get('wide'), force_warm=mt.get('static', False))
    judge(ck, [rec], [mt], pids)


def main(tier=None, replay=None):
    ck = Check(PID, tier)
    import_kyupy()
    rnd = random.Random(ck.seed)
    if replay:
        import json
        ck.is_replay = True
        replay_case(ck, json.load(open(replay))['case'], (PID,))
        return ck.finish('replay')
    # published constants
    from kyupy import sim as ksim
    luts = [[name.lower(), int(val)] for val, name in ksim.names.items()]
    r = ck.tlc('LutCheck', 'LutCheck', trace=luts, workers=1, label='M:LutCheck')
    ck.require_clean(r)
    for f in r.fails:
        ck.violation('lut:%s:%s' % (f[3], luts[f[1] - 1][0]), 'published look-up constant %s is not the table of its Boolean function (%s)' % (luts[f[1] - 1], f[3]),
                     dict(kind='lut', luts=luts))
    # the Boolean functions are the restriction of the documented algebra (M)
    r = ck.tlc('LogicLaws', 'LogicLaws', label='M:LogicLaws', cont=False)
    ck.require_clean(r, allow_violation=False)
    if r.rc != 0:
        raise MachineryError('LogicLaws: the specification of the algebra is inconsistent: %s' % r.invariant_violations)
    circuits = make_circuits(ck, rnd, ck.pick(150, 1000)) + tlc_circuits(ck, rnd, ck.pick(160, 4000))
    recs, meta = records(ck, rnd, circuits, (2,))
    judge(ck, recs, meta, (PID,))
    # scale: more than 65 536 signals / memory locations in one simulator, judged chain by chain
    crecs = [chains_record(rnd.randrange(1 << 30), 2, 34, 1000, lanes=rnd.choice([3, 5]), reuse=False, strip=False, use_cb=cb) for cb in ((True,) if not ck.thorough else (False, True, True))]
    judge_chains(ck, crecs, (PID,))
    ops_model(ck, rnd, circuits)
    for mt in meta:
        ck.nontrivial.add(gen.digest(mt['circuit']))
    ck.count('circuits', len(circuits))
    ck.count('records-callback-path', sum(1 for m in meta if m['cb']))
    ck.count('records-reuse', sum(1 for m in meta if m['reuse']))
    ck.count('records-strip', sum(1 for m in meta if m['strip']))
    ck.count('records-with-cycles', sum(1 for m in meta if m['cyc']))
    ck.count('records-odd-batch', sum(1 for m in meta if m['lanes'] % 8))
    ck.count('records-wide-batch', sum(1 for m in meta if m.get('wide')))
    ck.need_cover(['records-callback-path', 'records-reuse', 'records-strip', 'records-with-cycles', 'records-odd-batch', 'records-wide-batch'])
    ck.sample(dict(circuit=[repr(n) for n in circuits[20].nodes][:12], lanes=meta[-1]['lanes'], stim_row0=meta[-1]['stim'][0]))
    ck.assumptions += ['interface-cut convention: every port/state element drives its outputs from the assigned value (DESIGN §5.2)',
                       'gates drive output pin 0 only; state elements have pin 0 connected or no input at all',
                       'TLC, JSON reader, harness projection and its topological order (checked by TopoOK)']
    return ck.finish('one-of-each-primitive circuits (both styles), every connected-pin pattern of the variadic families, and seeded random '
                     'circuits (<=16 gates, all 33 primitives and alias kinds, forks, branch forks, DFF Q/QN, latches, open pins, dangling outputs) x '
                     'batch sizes 1..20 x {c_reuse} x {strip_forks} x {plain, callback} x cycles 1..4; ; plus implementation circuits of library cells simulated as they are, TLC-enumerated netlists (NetBuild.tla), batches of 257..70001 patterns with sampled lanes, circuits without state elements under cycle(); distinct by circuit digest')


# ---- scale: one circuit made of long chains, judged chain by chain (ChainsT.tla) ----
CHAIN_KINDS = [('buf1', 'BUF1', 0), ('inv1', 'INV1', 0), ('and2', 'AND2', 1), ('nand2', 'NAND2', 1), ('or2', 'OR2', 1), ('nor2', 'NOR2', 1),
               ('xor2', 'XOR2', 1), ('xnor2', 'XNOR2', 1)]


def chains_record(cseed, m, nchains, nstages, lanes=3, reuse=False, strip=False, use_cb=False, nside=3):
    """Description -> real circuit (public API) -> real LogicSim -> captured value at the end of every chain."""
    rnd = random.Random(cseed)
    from kyupy.circuit import Circuit, Node, Line
    c = Circuit('chains')
    alpha = {2: [0, 1], 4: [0, 1, 2, 3], 8: list(range(8))}[m]
    side_f = []
    for k in range(nside):
        f = Node(c, 's%d' % k)
        c.io_nodes.append(f)
        side_f.append(f)
    desc = []
    heads = []
    for j in range(nchains):
        f = Node(c, 'c%d' % j)
        c.io_nodes.append(f)
        heads.append(f)
    tails = []
    for j in range(nchains):
        cur = heads[j]
        ops = []
        for t in range(nstages):
            prim, kind, two = rnd.choice(CHAIN_KINDS)
            g = Node(c, 'g%d_%d' % (j, t), kind)
            Line(c, cur, (g, 0))
            sd = 0
            if two:
                sd = rnd.randint(1, nside)
                Line(c, side_f[sd - 1], (g, 1))
            ops.append([prim, sd])
            cur = Node(c, 'g%d_%d' % (j, t))
            Line(c, g, cur)
        o = Node(c, 'o%d' % j)
        Line(c, cur, o)
        tails.append(o)
        desc.append(dict(ops=ops))
    for o in tails:
        c.io_nodes.append(o)
    names = [n.name for n in c.s_nodes]
    stim = [[rnd.choice(alpha) for _ in range(lanes)] for _ in names]
    rec = dict(m=m, lanes=lanes, side=[stim[names.index('s%d' % k)] for k in range(nside)], chains=[], raised=False,
               nlines=len(c.lines), opts=dict(reuse=reuse, strip=strip, cb=use_cb), gen=[cseed, m, nchains, nstages, lanes])
    try:
        s = lsim.run_logic(c, m, lanes, stim, reuse, strip, (lambda line, view: None) if use_cb else None, use_cb)
        got = lsim.codes(s, 1, lanes)
        rec['clen'] = int(s.c_len)
        for j in range(nchains):
            rec['chains'].append(dict(inp=stim[names.index('c%d' % j)], ops=desc[j]['ops'], got=got[names.index('o%d' % j)]))
    except Exception as e:
        rec.update(raised=True, err=repr(e)[:300])
        rec['chains'] = [dict(inp=[0] * lanes, ops=[], got=[0] * lanes)]
    return rec


def judge_chains(ck, recs, pids):
    r = ck.tlc_batch('ChainsT', 'ChainsT', traces=recs, label='T:ChainsT', per_shard=1, timeout=1500)
    ck.require_clean(r)
    ck.traces += len(recs)
    ck.evaluations += sum(len(x['chains']) * x['lanes'] for x in recs)
    for pid, tid, chn, clause in r.fails:
        x = recs[tid - 1]
        if pid not in pids:
            continue
        ck.violation('%s:chains:m%d:%s' % (clause, x['m'], gen.digest([x['opts'], x['nlines']])),
                     '%s fails for chain %d of a circuit of %d chains x %d stages (%d lines, %d memory locations; m=%d, c_reuse=%s, strip_forks=%s, callback path=%s) %s' % (
                         clause, chn, len(x['chains']), len(x['chains'][0]['ops']), x['nlines'], x.get('clen', -1), x['m'], x['opts']['reuse'], x['opts']['strip'], x['opts']['cb'], x.get('err', '')),
                     dict(kind='chains', clause=clause, gen=x['gen'], opts=x['opts'], nlines=x['nlines']))
    for x in recs:
        ck.count('chain-circuits')
        if x.get('clen', 0) > 65536:
            ck.count('chain-circuits-beyond-16-bit-locations')
    ck.need_cover(['chain-circuits-beyond-16-bit-locations'])
