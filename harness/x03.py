"""X03 - behaviour beyond the listed properties (not registered in MANIFEST.json; informational).

The message limiter of kyupy.Log (`with log.limit(n): ...`, used by the parsers for their warnings):
(M) LogLimit.tla is model-checked (limits 0..3, 7 messages): nothing lost, order kept, exactly the first n messages of a
    window written, one summary line when leaving a window that held messages back;
(A) spec/apalache/LogLimitInd.tla: Apalache proves the window bound by an inductive invariant for every limit n >= 0 and any
    number of messages (base, step, IndInv => Goal);
(T) recorded histories of start_limit / log / stop_limit calls on the real objects - the global kyupy.log and a private
    Log() - are replayed through the same actions (LogLimitTrace.tla): after every call the lines written must be the
    lines the specification writes.
Differences are printed as EXTRA lines; the exit code is always 0 unless the machinery fails.
"""
import io
import random
import re

from .core import Check, MachineryError, import_kyupy


def lines_of(buf):
    out = []
    for ln in buf.getvalue().split('\n'):
        if not ln:
            continue
        m = re.match(r'# [0-9.]+ (.) (.*)$', ln)
        if not m:
            out.append(['?', 0])
        elif (s := re.match(r'(\d+) more messages \(filtered\)\.$', m.group(2))):
            out.append(['s', int(s.group(1))])
        elif (k := re.match(r'msg (\d+)$', m.group(2))):
            out.append(['m', int(k.group(1))])
        else:
            out.append(['?', 0])
    return out


def history(rnd, obj, which, nwin):
    """Non-nested windows with messages inside and between them."""
    buf = io.StringIO()
    old = obj.logfile
    obj.logfile = buf
    ev, issued = [], 0

    def rec(op, n=0, fn=None):
        e = dict(op=op, n=n, raised=False)
        try:
            fn()
        except Exception as ex:
            e.update(raised=True, err=repr(ex)[:150])
        e['lines'] = lines_of(buf)
        ev.append(e)
    try:
        for w in range(nwin):
            for _ in range(rnd.randint(0, 2)):
                issued += 1
                rec('log', fn=lambda: rnd.choice([obj.info, obj.warn, obj.error])('msg %d' % issued))
            n = rnd.choice([0, 1, 2, 3, 5])
            rec('start', n, fn=lambda: obj.start_limit(n))
            for _ in range(rnd.randint(0, 7)):
                issued += 1
                rec('log', fn=lambda: rnd.choice([obj.info, obj.warn, obj.error])('msg %d' % issued))
            rec('stop', fn=obj.stop_limit)
        issued += 1
        rec('log', fn=lambda: obj.info('msg %d' % issued))
    finally:
        obj.logfile = old
    return dict(which=which, ev=ev)


def main(tier=None, replay=None):
    ck = Check('X03', tier)
    import_kyupy()
    import kyupy
    m = ck.tlc('LogLimit', 'MC_LogLimit', label='M:MC_LogLimit', cont=False)
    if m.rc != 0:
        raise MachineryError('LogLimit: the design model violates its own properties: %s' % m.invariant_violations)
    # (A) unbounded: Apalache discharges an inductive invariant for ANY limit and any number of messages (spec/apalache/LogLimitInd.tla)
    import os, shutil, subprocess, tempfile
    from .core import SPEC
    apa = {}
    if shutil.which('apalache-mc'):
        out = tempfile.mkdtemp(prefix='apa_x03_')
        try:
            for name, args in (('base', ['--init=Init', '--inv=IndInv', '--length=0']), ('step', ['--init=IndInv', '--inv=IndInv', '--length=1']),
                               ('goal', ['--init=IndInv', '--inv=Goal', '--length=0'])):
                try:
                    p = subprocess.run(['apalache-mc', 'check'] + args + ['--out-dir=' + out, 'LogLimitInd.tla'], cwd=os.path.join(SPEC, 'apalache'),
                                       stdout=subprocess.PIPE, stderr=subprocess.STDOUT, text=True, timeout=900)
                    apa[name] = 'NoError' if 'The outcome is: NoError' in p.stdout else 'FAILED'
                except subprocess.TimeoutExpired:
                    apa[name] = 'timeout'
        finally:
            shutil.rmtree(out, ignore_errors=True)
        print('[X03] Apalache inductive invariant (any limit, any number of messages): %s' % apa)
        if any(v == 'FAILED' for v in apa.values()):
            raise MachineryError('LogLimitInd: the inductive invariant is not inductive: %s' % apa)
    ck.extra['apalache_inductive_invariant'] = apa or 'apalache-mc not found'
    rnd = random.Random(ck.seed)
    trs = []
    for t in range(ck.pick(150, 1500)):
        which = 'global kyupy.log' if t % 2 == 0 else 'private Log()'
        obj = kyupy.log if t % 2 == 0 else kyupy.Log()
        trs.append(history(rnd, obj, which, rnd.randint(1, 3)))
    for k, x in enumerate(trs):
        x['uid'] = k + 1
    r = ck.tlc_batch('LogLimitTrace', 'LogLimitTrace', traces=trs, label='T:LogLimitTrace', per_shard=100)
    ck.require_clean(r)
    ck.traces += len(trs)
    ck.evaluations += r.distinct
    first = {}
    for i in r.infos:
        if i and i[0] == 'extra':
            uid, l, clause = i[1], i[2], i[3]
            if uid not in first or l < first[uid][0]:
                first[uid] = (l, clause)
    by = {}
    for uid, (l, clause) in first.items():
        x = trs[uid - 1]
        by.setdefault((x['which'], clause, x['ev'][l - 1]['op']), []).append((x, l))
    for (which, clause, op), lst in sorted(by.items()):
        x, l = lst[0]
        calls = ' '.join('%s%s' % (e['op'], '(%d)' % e['n'] if e['op'] == 'start' else '') for e in x['ev'][:l])
        print('EXTRA Log limiter, %s: %s first differs at a %s() call in %d of %d histories, e.g. after [%s] the lines written are %s %s' % (
            which, clause, op, len(lst), sum(1 for y in trs if y['which'] == which), calls, x['ev'][l - 1]['lines'], x['ev'][l - 1].get('err', '')))
    ck.extra['differences'] = {'%s/%s/%s' % k: len(v) for k, v in by.items()}
    for x in trs:
        ck.count(x['which'])
        if any(e['op'] == 'stop' and x['ev'][j - 1]['op'] == 'log' for j, e in enumerate(x['ev'])):
            ck.count('window-with-messages')
        ck.nontrivial.add(' '.join('%s%d' % (e['op'], e['n']) for e in x['ev']))
    ck.sample(dict(which=trs[0]['which'], calls=[[e['op'], e['n']] for e in trs[0]['ev']], lines=trs[0]['ev'][-1]['lines']))
    return ck.finish('design: limits 0..3 x 7 messages, all interleavings of non-nested windows; traces: seeded histories of 1..3 windows (limits 0,1,2,3,5; 0..7 messages inside, 0..2 between) on the global logger and on a private Log()')
