"""Structures for the transparent / hierarchical netlist meaning (Netlist.EvalH) and abstract gate-level modules."""
from .project import project


def seq_flag(kind):
    k = kind.lower()
    return 1 if 'dff' in k else 2 if 'latch' in k else 0


def struct_t(c, seq_kinds=()):
    """Structure record with a topological order for the TRANSPARENT cut: sources are the input ports (ports whose
    pin 0 is unconnected), plain state elements and instances of sequential library cells (seq_kinds)."""
    st = project(c)
    st['seq'] = [seq_flag(nd['kind']) for nd in st['nodes']]
    nodes, lines = st['nodes'], st['lines']
    src = set()
    for i in st['io']:
        nd = nodes[i]
        if not (len(nd['ins']) > 0 and nd['ins'][0] >= 0):
            src.add(i)
    for i, nd in enumerate(nodes):
        if st['seq'][i] or nd['kind'] in seq_kinds:
            src.add(i)
    need = [0 if i in src else sum(1 for x in nd['ins'] if x >= 0) for i, nd in enumerate(nodes)]
    ready = [i for i in range(len(nodes)) if need[i] == 0]
    order, seen = [], set()
    while ready:
        i = ready.pop(0)
        if i in seen:
            continue
        seen.add(i)
        order.append(i)
        for x in nodes[i]['outs']:
            if x >= 0:
                r = lines[x]['rdr']
                if r in src or r in seen:
                    continue
                need[r] -= 1
                if need[r] == 0:
                    ready.append(r)
    st['topo'] = order
    del st['snodes']
    return st


def lib_structs(tlib, kinds):
    """kind -> implementation structure, for the cells named in kinds."""
    out = {}
    for k in kinds:
        out[k] = struct_t(tlib.cells[k][0])
    return out


def seq_kinds_of(tlib, kinds):
    return {k for k in kinds if any(seq_flag(n.kind) for n in tlib.cells[k][0].nodes)}


def n_sources(st, seq_kinds=()):
    n = 0
    for i in st['io']:
        nd = st['nodes'][i]
        if not (len(nd['ins']) > 0 and nd['ins'][0] >= 0):
            n += 1
    for i, nd in enumerate(st['nodes']):
        if st['seq'][i] or nd['kind'] in seq_kinds:
            if i not in st['io'] or True:
                n += 1
    return n


# ------------------------------------------------------------------ abstract modules
def random_module(rnd, tlib, kinds, n_in=3, n_out=2, n_inst=4, open_in=0.1, open_out=0.15, name='top'):
    """A flat gate-level module over library cells: every signal has one driver (input port or instance output pin).
    Returns dict(name, ports=[(dir, name)], insts=[(kind, iname, {pin: signal})], wires=[...])."""
    ports = [('input', 'pi%d' % i) for i in range(n_in)]
    sigs = [p[1] for p in ports]
    insts, wires = [], []
    for k in range(n_inst):
        kind = rnd.choice(kinds)
        pins = tlib.cells[kind][1]
        ins = sorted([p for p, (i, o) in pins.items() if not o], key=lambda p: pins[p][0])
        outs = sorted([p for p, (i, o) in pins.items() if o], key=lambda p: pins[p][0])
        pm = {}
        for p in ins:
            if rnd.random() >= open_in:
                pm[p] = rnd.choice(sigs)
        new = []
        for p in outs:
            if rnd.random() >= open_out or (p == outs[0] and not new and k == n_inst - 1):
                w = 'w%d_%s' % (k, p.lower())
                pm[p] = w
                wires.append(w)
                new.append(w)
        insts.append((kind, 'u%d' % k, pm))
        sigs += new
    cand = [s for s in sigs if s.startswith('w')] or sigs
    outp = []
    for i in range(n_out):
        s = rnd.choice(cand)
        outp.append(('output', 'po%d' % i, s))
    return dict(name=name, ports=ports + [(d, n) for d, n, _ in outp], insts=insts, wires=wires,
                assigns=[(n, s) for _, n, s in outp])


def build_module(mod, tlib, branchforks=False):
    """Build the circuit the Verilog parser is documented to produce for this module, directly through the API."""
    from kyupy.circuit import Circuit, Node, Line
    c = Circuit(mod['name'])
    pos = {}
    for d, n in mod['ports']:
        node = Node(c, n, d)
        c.io_nodes.append(node)
        if d == 'input':
            Line(c, node, Node(c, n))
    for kind, iname, pm in mod['insts']:
        node = Node(c, iname, kind)
        for p, s in pm.items():
            if tlib.pin_is_output(kind, p):
                Line(c, (node, tlib.pin_index(kind, p)), c.get_or_add_fork(s))
    for tgt, src in mod['assigns']:
        Line(c, c.get_or_add_fork(src), c.get_or_add_fork(tgt))
    for kind, iname, pm in mod['insts']:
        node = c.cells[iname]
        for p, s in pm.items():
            if not tlib.pin_is_output(kind, p):
                f = c.get_or_add_fork(s)
                if branchforks:
                    b = Node(c, f.name + '~' + iname + '/' + p)
                    Line(c, f, b)
                    f = b
                Line(c, f, (node, tlib.pin_index(kind, p)))
    for d, n in mod['ports']:
        if d == 'output' and n in c.forks:
            Line(c, c.forks[n], c.cells[n])
    return c
