"""C18 - STIL patterns map scan data onto flip-flops by chain order and inversion.

(T) abstract STIL descriptions (1-2 scan chains over the circuit's flip-flops in scrambled order, inversion markers at
    every kind of position, shuffled signal groups, pattern sets with loads, unloads, capture calls with and without
    clock pulse and optional launch calls) are rendered to STIL text, parsed with the REAL parser, and the arrays
    returned by tests(), responses() and tests_loc() are compared by TLC with the meaning StilT.tla gives the
    description (chain order: first shifted bit = cell nearest scan-out; cumulative inversion from scan-in for loads,
    from scan-out for unloads; launch-on-capture transitions with the next state from Netlist.Eval).
"""
import random

import numpy as np

from .core import Check, MachineryError, import_kyupy
from . import gen, lsim

PID = 'C18'
TCH = {0: '0', 3: '1', 1: 'X', 2: 'N', 4: 'P'}
RCH = {0: 'L', 3: 'H', 1: 'X'}


def make_case(rnd, big=False):
    from kyupy import stil
    from kyupy.circuit import Node, Line
    c = gen.gen_circuit(rnd, style='v', max_gates=6, max_in=3, max_ff=0, latches=False, open_pins=False, dangling=False)
    # flip-flops in scrambled node positions, clock and scan ports
    sig = [f for f in c.forks.values() if f.ins or any(f is n for n in c.io_nodes)]
    nff = rnd.randint(1, 7 if big else 5)
    clk = Node(c, 'clk', 'input')
    c.io_nodes.insert(rnd.randint(0, len(c.io_nodes)), clk)
    fclk = Node(c, 'clk')
    Line(c, clk, fclk)
    si = Node(c, 'si', 'input')
    c.io_nodes.insert(rnd.randint(0, len(c.io_nodes)), si)
    Line(c, si, Node(c, 'si'))
    ffs = []
    # flip-flop names: plain, ending in the letters of the '.SI' pin suffix, starting with 'SI', mixed case
    pool = rnd.choice([['r%d'], ['r%d', 'ACK%dS', 'PH%dI', 'q%dSI', 'STATUS%d', 'SIG%d', 'SIZE_%d_', 'si_%d', 'Reg%dIS']])
    for k in range(nff):
        nm = rnd.choice(pool) % k
        ff = Node(c, nm, 'DFF')
        f = Node(c, nm)
        Line(c, ff, f)
        ffs.append(ff)
        if rnd.random() < 0.4:      # some unrelated logic in between so that node order is scrambled
            g = Node(c, 'x%d' % k, 'AND2')
            Line(c, f, g)
            Line(c, rnd.choice(sig), g)
            fg = Node(c, 'x%d' % k)
            Line(c, g, fg)
            sig.append(fg)
        sig.append(f)
    for ff in ffs:
        Line(c, rnd.choice(sig), (ff, 0))
        Line(c, fclk, (ff, 1))
    so = Node(c, 'so', 'output')
    c.io_nodes.append(so)
    Line(c, c.forks[ffs[-1].name], so)
    for n in c.nodes:
        if 'dff' in n.kind.lower():
            n.kind = 'DFF'
    iface = [n.name for n in c.s_nodes]
    ins = [n.name for n in c.io_nodes if n.kind == 'input']
    outs = [n.name for n in c.io_nodes if n.kind == 'output']
    pi, po = ins[:], outs[:]
    rnd.shuffle(pi)
    rnd.shuffle(po)
    # chains
    order = [ff.name for ff in ffs]
    rnd.shuffle(order)
    nch = 2 if len(order) >= 2 and rnd.random() < 0.4 else 1
    cut = rnd.randint(1, len(order) - 1) if nch == 2 else len(order)
    chains = []
    for k, cells in enumerate([order[:cut], order[cut:]][:nch]):
        seq = []
        for nm in cells:
            while rnd.random() < 0.3:
                seq.append('!')
            seq.append(nm)
        while rnd.random() < 0.3:
            seq.append('!')
        chains.append(dict(si='si' if k == 0 else 'si%d' % k, so='so' if k == 0 else 'so%d' % k, cells=seq))
    # the extra scan ports of a second chain are not circuit ports: StilFile only uses them as dictionary keys
    npat = rnd.randint(1, 4)
    full = rnd.random() < 0.6
    pats = []
    for j in range(npat):
        def data(n, resp=False):
            if resp:
                return [rnd.choice([0, 3, 0, 3, 1]) for _ in range(n)]
            return [rnd.choice([0, 3]) if full else rnd.choice([0, 3, 0, 3, 1, 2]) for _ in range(n)]
        ncell = [len([x for x in ch['cells'] if x != '!']) for ch in chains]
        pulse = rnd.random() < 0.7 or True

        def pistr(p):
            return [4 if (nm == 'clk' and p) else (rnd.choice([0, 3]) if (full or nm == 'clk') else rnd.choice([0, 3, 1])) for nm in pi]
        haslaunch = rnd.random() < 0.5
        pats.append(dict(load=[data(n) for n in ncell], unload=[data(n, True) for n in ncell], haslaunch=haslaunch,
                         lpi=pistr(rnd.random() < 0.6) if haslaunch else [0] * len(pi), cpi=pistr(rnd.random() < 0.8),
                         cpo=[rnd.choice([0, 3, 1]) for _ in po], lpo=[rnd.choice([0, 3, 1]) for _ in po]))

    def s(codes, table):
        txt = ''.join(table[v] for v in codes)
        if len(txt) > 3 and rnd.random() < 0.3:
            k = rnd.randint(1, len(txt) - 1)
            txt = txt[:k] + '\n' + txt[k:]
        return txt
    q = lambda x: '"%s"' % x
    t = ['STIL 1.0 { Design 2005; }', 'Header { Title "generated"; Date "today"; }',
         'Signals { %s }' % (' '.join('%s In;' % q(n) for n in ins) + ' ' + ' '.join('%s Out;' % q(n) for n in outs)),
         'SignalGroups {', '  "_pi" = \'%s\';' % ' + '.join(q(n) for n in pi), '  "_po" = \'%s\';' % ' + '.join(q(n) for n in po),
         '  "_si" = \'%s\' { ScanIn; }' % ' + '.join(q(ch['si']) for ch in chains), '  "_so" = \'%s\' { ScanOut; }' % ' + '.join(q(ch['so']) for ch in chains), '}',
         'ScanStructures {']
    for k, ch in enumerate(chains):
        cells = ' '.join('!' if x == '!' else q('top.%s.SI' % x if rnd.random() < 0.7 else x) for x in ch['cells'])
        t.append('  ScanChain "%d" { ScanLength %d; ScanIn %s; ScanOut %s; ScanInversion 0; ScanCells %s ; ScanMasterClock "clk" ; }' % (
            k + 1, len([x for x in ch['cells'] if x != '!']), q(ch['si']), q(ch['so']), cells))
    t += ['}', 'PatternBurst "_burst_" { PatList { "_pattern_" { } } }', 'PatternExec { PatternBurst "_burst_"; }',
          'Procedures { "load_unload" { W "_default_WFT_"; } }', 'MacroDefs { "test_setup" { W "_default_WFT_"; } }',
          'Pattern "_pattern_" {', '  W "_default_WFT_";', '  "precondition all Signals": C { "_pi"=%s; }' % ('0' * len(pi)), '  Macro "test_setup";', '  Ann {* chain test *}']
    for j, p in enumerate(pats):
        params = []
        if j > 0:
            params += ['%s=%s;' % (q(ch['so']), s(pats[j - 1]['unload'][k], RCH)) for k, ch in enumerate(chains)]
        params += ['%s=%s;' % (q(ch['si']), s(p['load'][k], TCH)) for k, ch in enumerate(chains)]
        t.append('  "pattern %d": Call "load_unload" { %s }' % (j, ' '.join(params)))
        if p['haslaunch']:
            t.append('  Call "allclock_launch" { "_pi"=%s; "_po"=%s; }' % (s(p['lpi'], TCH), s(p['lpo'], RCH)))
        t.append('  Call "%s" { "_pi"=%s; "_po"=%s; }' % ('allclock_capture' if p['haslaunch'] else 'multiclock_capture', s(p['cpi'], TCH), s(p['cpo'], RCH)))
    t.append('  "end %d unload": Call "load_unload" { %s }' % (npat - 1, ' '.join('%s=%s;' % (q(ch['so']), s(pats[-1]['unload'][k], RCH)) for k, ch in enumerate(chains))))
    t.append('}')
    text = '\n'.join(t) + '\n'
    rec = dict(iface=iface, chains=chains, pi=pi, po=po, pats=pats, st=lsim.struct(c), tests=[], resp=[], loc=[], raised=False, loc_checked=full)
    try:
        sf = stil.parse(text)
        if len(sf.patterns) != npat:
            raise ValueError('parsed %d patterns, the file describes %d' % (len(sf.patterns), npat))
        if rnd.random() < 0.3:
            # history: node indices were reassigned by an earlier transformation (the order of creation is no longer the
            # order of the nodes); the pattern rows follow the circuit's CURRENT port/state ordering
            c.eliminate_1to1_forks()
            rec['iface'] = [n.name for n in c.s_nodes]
            rec['st'] = lsim.struct(c)
        if rnd.random() < 0.35 and len(c.io_nodes) >= 2:
            # history: the same StilFile object was already used, then the circuit's port order was changed in place
            sf.tests(c), sf.responses(c)
            a, b = rnd.sample(range(len(c.io_nodes)), 2)
            c.io_nodes[a], c.io_nodes[b] = c.io_nodes[b], c.io_nodes[a]
            rec['iface'] = [n.name for n in c.s_nodes]
            rec['st'] = lsim.struct(c)
        rec['tests'] = np.asarray(sf.tests(c)).astype(int).tolist()
        rec['resp'] = np.asarray(sf.responses(c)).astype(int).tolist()
        rec['loc'] = np.asarray(sf.tests_loc(c)).astype(int).tolist()
    except Exception as e:
        rec['raised'] = True
        rec['err'] = repr(e)[:300]
    return rec, dict(stil=text, circuit=gen.circuit_state(c))


def main(tier=None, replay=None):
    ck = Check(PID, tier)
    import_kyupy()
    rnd = random.Random(ck.seed + 18)
    recs, metas = [], []
    for t in range(ck.pick(260, 3000)):
        rec, mt = make_case(rnd, big=ck.thorough)
        recs.append(rec)
        metas.append(mt)
    if replay:
        import json
        ck.is_replay = True
        want = json.load(open(replay))['case']['digest']
        sel = [i for i, m in enumerate(metas) if gen.digest(m) == want]
        recs, metas = [recs[i] for i in sel], [metas[i] for i in sel]
    r = ck.tlc_batch('StilT', 'StilT', traces=recs, label='T:StilT', per_shard=60, timeout=1500)
    ck.require_clean(r)
    ck.traces += len(recs)
    ck.evaluations += sum(len(x['pats']) for x in recs)
    mach = []
    for pid, tid, j, clause in r.fails:
        if pid == 'MACHINERY':
            mach.append(tid)
            continue
        x, mt = recs[tid - 1], metas[tid - 1]
        ck.violation('%s:%s' % (clause, gen.digest(mt)), '%s fails for pattern %d (chains %s) %s' % (clause, j - 1, [ch['cells'] for ch in x['chains']], x.get('err', '')),
                     dict(kind='stil', digest=gen.digest(mt), clause=clause, stil=mt['stil']))
    if mach and not ck.violations:
        raise MachineryError('interface order of case %d is not the one the specification derives' % mach[0])
    for x, mt in zip(recs, metas):
        ck.nontrivial.add(gen.digest(mt))
        ck.count('chains', len(x['chains']))
        ck.count('two-chain-files', 1 if len(x['chains']) == 2 else 0)
        ck.count('markers', sum(ch['cells'].count('!') for ch in x['chains']))
        ck.count('loc-checked', 1 if x['loc_checked'] else 0)
        ck.count('loc-partial', 0 if x['loc_checked'] else 1)
        ck.count('launch-calls', sum(1 for p in x['pats'] if p['haslaunch']))
    ck.need_cover(['two-chain-files', 'markers', 'loc-checked', 'loc-partial', 'launch-calls'])
    ck.sample(dict(stil_text=metas[0]['stil'][-700:], chains=recs[0]['chains'], tests=recs[0]['tests']))
    ck.assumptions += ['flip-flop kinds are upper-case DFF (StilFile matches \'DFF\' case-sensitively)', 'unload strings over H/L/X; tests_loc judged exactly for fully specified 0/1 loads and inputs with a clock pulse in the capture call; with X/- among loads or inputs, every position whose expected value is definite must be exact and every other position must be X or - (TestsLocPartial)',
                       'the STIL renderer of the harness (trusted); TLC, JSON reader, projection']
    return ck.finish('seeded random circuits with 1..7 flip-flops in scrambled node order x 1-2 chains x marker placements x 1..4 patterns (with/without launch call '
                     'and clock pulses) x shuffled signal groups x flip-flop name pool x reuse histories (ports reordered, node indices reassigned); distinct by (circuit, STIL text)')
