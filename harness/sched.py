"""Export of what a real SimOps object published (schedule + memory map) for Schedule.tla."""
import numpy as np

from .project import project


def export_schedule(c, s, strip, reuse, caps_desc=None):
    """One case record for Schedule.tla: published data only + the structure + the option flags."""
    st = project(c)
    return dict(st=st, strip=bool(strip), reuse=bool(reuse),
                ops=[[int(x) for x in op[1:6]] for op in np.array(s.ops)],
                levels=[[int(a), int(b)] for a, b in zip(np.array(s.level_starts), np.array(s.level_stops))],
                loc=[int(x) for x in np.array(s.c_locs)], cap=[int(x) for x in np.array(s.c_caps)],
                clen=int(s.c_len))


def max_level_width(case):
    return max([b - a for a, b in case['levels']] or [0])


class RecordingHeap:
    """Factory for a recording subclass of the real kyupy.sim.Heap (rebinding kyupy.sim.Heap while SimOps builds
    its map yields the allocator history SimOps performs)."""

    def __init__(self):
        import kyupy.sim as ksim
        self.ksim = ksim
        self.orig = ksim.Heap
        self.events = None
        outer = self

        class Rec(self.orig):
            def alloc(self, size):
                try:
                    loc = super().alloc(size)
                    outer.events.append(snapshot(self, 'alloc', int(size), int(loc), False))
                    return loc
                except Exception:
                    outer.events.append(snapshot(self, 'alloc', int(size), -1, True))
                    raise

            def free(self, loc):
                try:
                    super().free(loc)
                    outer.events.append(snapshot(self, 'free', 0, int(loc), False))
                except Exception:
                    outer.events.append(snapshot(self, 'free', 0, int(loc), True))
                    raise
        self.cls = Rec

    def __enter__(self):
        self.events = []
        self.ksim.Heap = self.cls
        return self

    def __exit__(self, *a):
        self.ksim.Heap = self.orig


def snapshot(h, op, size, loc, raised):
    return dict(op=op, size=size, loc=loc, raised=raised,
                chunks=[[int(k), int(v)] for k, v in sorted(h.chunks.items())],
                released=[int(x) for x in h.released], cur=int(h.current_size), max=int(h.max_size))


def run_history(hist):
    """Step an abstract history (+s alloc, -k free k-th live chunk by address) through the REAL Heap."""
    from kyupy.sim import Heap
    h = Heap()
    live = []
    ev = []
    for x in hist:
        if x > 0:
            try:
                loc = h.alloc(x)
                live.append(int(loc))
                ev.append(snapshot(h, 'alloc', x, int(loc), False))
            except Exception:
                ev.append(snapshot(h, 'alloc', x, -1, True))
                break
        else:
            live.sort()
            k = -x
            if k > len(live):
                continue
            loc = live.pop(k - 1)
            try:
                h.free(loc)
                ev.append(snapshot(h, 'free', 0, loc, False))
            except Exception:
                ev.append(snapshot(h, 'free', 0, loc, True))
                break
    return ev
