"""C20 - DEF data is extracted as written, with wildcards and via arrays expanded.

(T) abstract DEF files (header, units, die area, rows, tracks, via definitions, components, pins, special and regular
    nets with 1-3 wire segments: point sequences with every wildcard pattern, vias with and without orientation, via
    arrays) are rendered to DEF text and parsed by the REAL parser; TLC (DefT.tla) runs the routing cursor machine on
    the abstract wires and compares the per-layer wire listings and per-type via listings of DefNet.wires / DefNet.vias
    for special and regular nets, and compares every section field by field with the abstract file.
"""
import random

from .core import Check, import_kyupy
from . import gen

PID = 'C20'
ORI = ['N', 'S', 'W', 'E', 'FN', 'FS', 'FW', 'FE']


def flat(x):
    """Canonical token sequence of a nested value (total comparison in TLC)."""
    if isinstance(x, (list, tuple)):
        out = ['[']
        for y in x:
            out += flat(y)
        return out + [']']
    if isinstance(x, dict):
        out = ['{']
        for k in sorted(x):
            out += [str(k)] + flat(x[k])
        return out + ['}']
    return [str(x)]


def rand_wire(rnd, special, layers, vias):
    layer = rnd.choice(layers)
    width = rnd.choice([100, 140, 200]) if special else -1
    x, y = rnd.randint(0, 50) * 10, rnd.randint(0, 50) * 10
    elems = [dict(v=False, x=x, y=y, ext=rnd.choice([-1, -1, -1, 25]), name='', orient='', do=[])]
    n = rnd.randint(1, 5)
    for k in range(n):
        r = rnd.random()
        if r < 0.6 or (k == n - 1 and len(elems) == 1 and rnd.random() < 0.7):
            pat = rnd.choice(['xy', 'x*', '*y', '**', 'x*', '*y'])
            elems.append(dict(v=False, x=-1 if pat[0] == '*' else rnd.randint(0, 50) * 10, y=-1 if pat[1] == '*' else rnd.randint(0, 50) * 10,
                              ext=rnd.choice([-1, -1, -1, -1, 0, 35, 70]), name='', orient='', do=[]))
        else:
            v = rnd.choice(vias)
            if special:
                do = [rnd.randint(1, 3), rnd.randint(1, 3), rnd.choice([10, 20, 35]), rnd.choice([10, 15, 40])] if rnd.random() < 0.5 else []
                if do and rnd.random() < 0.04:
                    do[rnd.randrange(2)] = rnd.randint(257, 300)        # scale: an array with more than 256 vias in a row
                elems.append(dict(v=True, x=0, y=0, ext=-1, name=v, orient='', do=do))
            else:
                elems.append(dict(v=True, x=0, y=0, ext=-1, name=v, orient=rnd.choice(ORI) if rnd.random() < 0.5 else '', do=[]))
    return dict(layer=layer, width=width, elems=elems)


def render_wire(w, special, rnd):
    parts = [w['layer']]
    if special:
        parts.append(str(w['width']))
        if rnd.random() < 0.4:
            parts.append('+ SHAPE STRIPE')
    for e in w['elems']:
        if e['v']:
            t = e['name']
            if e['do']:
                t += ' DO %d BY %d STEP %d %d' % tuple(e['do'])
            elif e['orient']:
                t += ' ' + e['orient']
            parts.append(t)
        else:
            parts.append('( %s %s%s )' % ('*' if e['x'] < 0 else e['x'], '*' if e['y'] < 0 else e['y'], '' if e['ext'] < 0 else ' %d' % e['ext']))
    return ' '.join(parts)


def make_file(rnd):
    layers = ['M1', 'M2', 'M3']
    vias = ['VIA12', 'VIA23', 'via1_4']
    d = dict(version=rnd.choice(['5.8', '5.7']), divider='/', busbit='[]', design=rnd.choice(['top', 'b15_core']),
             units=rnd.choice([1000, 2000]), die=[[0, 0], [rnd.randint(10, 90) * 100, rnd.randint(10, 90) * 100]] + ([[rnd.randint(0, 90) * 100, rnd.randint(0, 90) * 100] for _ in range(rnd.randint(1, 4))] if rnd.random() < 0.4 else []))     # rectangle or polygon
    d['rows'] = [dict(name='ROW_%d' % k, site='unit', x=0, y=k * 1672, ori=rnd.choice(['N', 'FS']), nx=rnd.randint(5, 80), ny=1, sx=152, sy=0) for k in range(rnd.randint(0, 3))]
    d['tracks'] = [dict(dir=rnd.choice('XY'), start=rnd.randint(0, 200), n=rnd.randint(1, 50), step=rnd.choice([152, 304]), layer=rnd.choice(layers)) for _ in range(rnd.randint(0, 3))]
    d['viadefs'] = [dict(name=v, rule=v + 'R', cut=[50, 50], layers=['M1', 'V1', 'M2'], spacing=[60, 70], encl=[5, 6, 7, 8], rowcol=[rnd.randint(1, 3), rnd.randint(1, 3)])
                    for v in vias[:rnd.randint(0, 3)]]
    d['comps'] = [dict(name='u%d' % k, kind=rnd.choice(['AND2X1', 'INVX1', 'DFFX1']), x=rnd.randint(0, 90) * 10, y=rnd.randint(0, 90) * 10, ori=rnd.choice(ORI)) for k in range(rnd.randint(0, 4))]
    d['pins'] = [dict(name=rnd.choice(['a', 'b', 'clk', 'q[0]']) + str(k), net='n%d' % k, dir=rnd.choice(['INPUT', 'OUTPUT']), use='SIGNAL', layer=rnd.choice(layers),
                      box=[[0, 0], [10, 10]], x=rnd.randint(0, 50), y=0, ori='N') for k in range(rnd.randint(0, 3))]
    d['spnets'] = []
    for k in range(rnd.randint(0, 2)):
        d['spnets'].append(dict(name=rnd.choice(['VDD', 'VSS']) + str(k), pins=[['*', 'VDD']], use='POWER', wires=[rand_wire(rnd, True, layers, vias) for _ in range(rnd.randint(0, 3))]))
    d['nets'] = []
    for k in range(rnd.randint(1, 4)):
        d['nets'].append(dict(name='n%d' % k, pins=[['u%d' % rnd.randint(0, 3), rnd.choice(['A', 'Y'])] for _ in range(rnd.randint(1, 3))] + ([['PIN', 'a0']] if rnd.random() < 0.3 else []),
                              use='SIGNAL', wires=[rand_wire(rnd, False, layers, vias) for _ in range(rnd.randint(0, 3))]))
    if rnd.random() < 0.3:
        # scale: coordinates of real designs (database units up to 10^9; beyond 16-bit and float32-exact ranges)
        S = rnd.choice([1000, 100000, 100003])
        d['die'] = [[x * S, y * S] for x, y in d['die']]
        for r in d['rows']:
            r['x'], r['y'] = r['x'] * S, r['y'] * S
        for t in d['tracks']:
            t['start'] *= S
        for o in d['comps'] + d['pins']:
            o['x'], o['y'] = o['x'] * S, o['y'] * S
        for n in d['spnets'] + d['nets']:
            for w in n['wires']:
                for e in w['elems']:
                    if not e['v']:
                        e['x'] = e['x'] * S if e['x'] >= 0 else e['x']
                        e['y'] = e['y'] * S if e['y'] >= 0 else e['y']
                    elif e['do']:
                        e['do'][2], e['do'][3] = e['do'][2] * S, e['do'][3] * S
    return d


def render(d, rnd):
    t = ['# generated', 'VERSION %s ;' % d['version'], 'DIVIDERCHAR "%s" ;' % d['divider'], 'BUSBITCHARS "%s" ;' % d['busbit'], 'DESIGN %s ;' % d['design'],
         'UNITS DISTANCE MICRONS %d ;' % d['units'], 'DIEAREA %s ;' % ' '.join('( %d %d )' % (x, y) for x, y in d['die'])]
    for r in d['rows']:
        t.append('ROW %s %s %d %d %s DO %d BY %d STEP %d %d ;' % (r['name'], r['site'], r['x'], r['y'], r['ori'], r['nx'], r['ny'], r['sx'], r['sy']))
    for r in d['tracks']:
        t.append('TRACKS %s %d DO %d STEP %d LAYER %s ;' % (r['dir'], r['start'], r['n'], r['step'], r['layer']))
    if d['viadefs']:
        t.append('VIAS %d ;' % len(d['viadefs']))
        for v in d['viadefs']:
            t.append('- %s + VIARULE %s + CUTSIZE %d %d + LAYERS %s + CUTSPACING %d %d + ENCLOSURE %d %d %d %d + ROWCOL %d %d ;' % (
                v['name'], v['rule'], v['cut'][0], v['cut'][1], ' '.join(v['layers']), v['spacing'][0], v['spacing'][1], *v['encl'], *v['rowcol']))
        t.append('END VIAS')
    t.append('COMPONENTS %d ;' % len(d['comps']))
    for c in d['comps']:
        t.append('- %s %s + PLACED ( %d %d ) %s ;' % (c['name'], c['kind'], c['x'], c['y'], c['ori']))
    t.append('END COMPONENTS')
    t.append('PINS %d ;' % len(d['pins']))
    for p in d['pins']:
        t.append('- %s + NET %s + DIRECTION %s + USE %s + PORT + LAYER %s ( %d %d ) ( %d %d ) + PLACED ( %d %d ) %s ;' % (
            p['name'], p['net'], p['dir'], p['use'], p['layer'], p['box'][0][0], p['box'][0][1], p['box'][1][0], p['box'][1][1], p['x'], p['y'], p['ori']))
    t.append('END PINS')

    def net_txt(n, special):
        s = '- %s %s + USE %s' % (n['name'], ' '.join('( %s %s )' % tuple(p) for p in n['pins']), n['use'])
        if n['wires']:
            s += ' + ROUTED ' + ('\n  NEW '.join(render_wire(w, special, rnd) for w in n['wires']))
        return s + ' ;'
    if d['spnets']:
        t.append('SPECIALNETS %d ;' % len(d['spnets']))
        t += [net_txt(n, True) for n in d['spnets']]
        t.append('END SPECIALNETS')
    t.append('NETS %d ;' % len(d['nets']))
    t += [net_txt(n, False) for n in d['nets']]
    t.append('END NETS')
    t.append('END DESIGN')
    return '\n'.join(t) + '\n'


def expected_sections(d):
    return dict(header=[d['version'], d['divider'], d['busbit'], d['design']], units=[['DISTANCE', 'MICRONS', d['units']]], diearea=d['die'],
                rows=[[r['name'], r['site'], [r['x'], r['y']], r['ori'], max(r['nx'], r['ny']), max(r['sx'], r['sy'])] for r in d['rows']],
                tracks=[[r['dir'], r['start'], r['n'], r['step'], r['layer']] for r in d['tracks']],
                vias={v['name']: dict(viarule=v['rule'], cutsize=v['cut'], layers=v['layers'], cutspacing=v['spacing'], enclosure=v['encl'], rowcol=v['rowcol']) for v in d['viadefs']},
                components={c['name']: [c['kind'], [c['x'], c['y']], c['ori']] for c in d['comps']},
                pins={p['name']: dict(net=p['net'], direction=p['dir'], use=p['use'], layer=[p['layer'], p['box'][0], p['box'][1]], points=[[p['x'], p['y'], p['ori']]]) for p in d['pins']},
                nets={n['name']: dict(pins=n['pins'], use=n['use'], nwires=len(n['wires'])) for n in d['nets']},
                specialnets={n['name']: dict(pins=n['pins'], use=n['use'], nwires=len(n['wires'])) for n in d['spnets']})


def got_sections(df):
    g = lambda o, a, dflt=None: getattr(o, a, dflt)

    def netd(nets):
        return {k: dict(pins=[list(p) for p in n.pins], use=g(n, 'use'), nwires=len(g(n, 'routed', []) or [])) for k, n in nets.items()}
    return dict(header=[g(df, 'version'), g(df, 'dividerchar'), g(df, 'busbitchars'), g(df, 'design')], units=[list(u) for u in df.units],
                diearea=[list(p) for p in g(df, 'diearea', [])], rows=[[r[0], r[1], list(r[2]), r[3], r[4], r[5]] for r in df.rows],
                tracks=[list(r) for r in df.tracks],
                vias={k: dict(viarule=g(v, 'viarule'), cutsize=g(v, 'cutsize'), layers=g(v, 'layers'), cutspacing=g(v, 'cutspacing'), enclosure=g(v, 'enclosure'), rowcol=g(v, 'rowcol')) for k, v in df.vias.items()},
                components={k: [v[0], list(v[1]), v[2]] for k, v in df.components.items()},
                pins={k: dict(net=g(p, 'net'), direction=g(p, 'direction'), use=g(p, 'use'), layer=[g(p, 'layer')[0], list(g(p, 'layer')[1]), list(g(p, 'layer')[2])] if g(p, 'layer') else None,
                              points=[list(x) for x in p.points]) for k, p in df.pins.items()},
                nets=netd(df.nets), specialnets=netd(df.specialnets))


def make_case(rnd):
    from kyupy import def_file
    d = make_file(rnd)
    text = render(d, rnd)
    recs = []
    base = dict(kind='net', wires=[], layers=[], vtypes=[], gotw=[], gotv=[], exp={}, got={}, raised=False, net='')
    try:
        if rnd.random() < 0.3:        # history: a truncated file fails to parse; the next parse must not be affected
            try:
                def_file.parse(render(make_file(rnd), rnd)[:-rnd.randint(20, 200)])
            except Exception:
                pass
        df = def_file.parse(text)
        exp, got = expected_sections(d), got_sections(df)
        recs.append(dict(base, kind='sections', exp={k: flat(v) for k, v in exp.items()}, got={k: flat(v) for k, v in got.items()}))
        for special, nets, parsed in ((True, d['spnets'], df.specialnets), (False, d['nets'], df.nets)):
            for n in nets:
                r = dict(base, net=n['name'], wires=n['wires'])
                try:
                    pn = parsed[n['name']]
                    ww, vv = pn.wires, pn.vias
                    r['layers'] = sorted(ww)
                    r['gotw'] = [[[(-1 if w is None else int(w)), [[-1 if c is None else int(c) for c in p] for p in pts]] for w, pts in ww[l]] for l in r['layers']]
                    r['vtypes'] = sorted(vv)
                    r['gotv'] = [[[int(x), int(y), str(o)] for x, y, o in vv[t]] for t in r['vtypes']]
                except Exception as e:
                    r['raised'] = True
                    r['err'] = repr(e)[:200]
                recs.append(r)
    except Exception as e:
        recs.append(dict(base, kind='sections', raised=True, err=repr(e)[:300]))
    return recs, text


def main(tier=None, replay=None):
    ck = Check(PID, tier)
    import_kyupy()
    rnd = random.Random(ck.seed + 20)
    recs, texts = [], []
    for t in range(ck.pick(250, 2500)):
        rs, text = make_case(rnd)
        for r in rs:
            recs.append(r)
            texts.append(text)
    if replay:
        import json
        ck.is_replay = True
        want = json.load(open(replay))['case']['digest']
        sel = [i for i, x in enumerate(texts) if gen.digest(x) == want]
        recs, texts = [recs[i] for i in sel], [texts[i] for i in sel]
    r = ck.tlc_batch('DefT', 'DefT', traces=recs, label='T:DefT', per_shard=150, timeout=1500)
    ck.require_clean(r)
    ck.traces += len(recs)
    ck.evaluations += len(recs)
    for pid, tid, _, clause in r.fails:
        x = recs[tid - 1]
        ck.violation('%s:%s:%s' % (clause, x['net'], gen.digest(texts[tid - 1])), '%s fails (%s %s) %s' % (clause, x['kind'], x['net'], x.get('err', '')),
                     dict(kind='def', digest=gen.digest(texts[tid - 1]), clause=clause, text=texts[tid - 1], wires=x['wires']))
    for x, text in zip(recs, texts):
        ck.nontrivial.add(gen.digest(text) + x['net'])
        if x['kind'] == 'net':
            for w in x['wires']:
                ck.count('wires')
                ck.count('wildcards', sum(1 for e in w['elems'] if not e['v'] and (e['x'] < 0 or e['y'] < 0)))
                ck.count('via-arrays', sum(1 for e in w['elems'] if e['v'] and e['do']))
                ck.count('oriented-vias', sum(1 for e in w['elems'] if e['v'] and e['orient']))
                ck.count('regular-net-wires' if w['width'] < 0 else 'special-net-wires')
        else:
            ck.count('files')
    ck.need_cover(['wires', 'wildcards', 'via-arrays', 'oriented-vias', 'regular-net-wires', 'special-net-wires', 'files'])
    ck.sample(dict(def_text=texts[0][-600:], net=[x for x in recs if x['kind'] == 'net' and x['wires']][0]))
    ck.assumptions += ['supported grammar subset: non-negative coordinates, ROUTED wiring', 'the DEF renderer and the section normaliser of the harness (trusted)',
                       'TLC, JSON reader']
    return ck.finish('seeded random abstract DEF files (all sections) x nets with 0..3 wire segments x point sequences of <= 6 elements over all wildcard patterns, '
                     'vias with/without orientation and via arrays (also > 256 elements), polygon die areas, design-scale coordinates, a failed parse before the judged one; distinct by (file text, net)')
