"""X02 - behaviour beyond the listed properties (not registered in MANIFEST.json; informational).

Circuit.fanout_free_regions() on random circuits against RegionsT.tla (stems = flip-flops and nodes without exactly
one output pin, every stem once in a reversed topological order, each region the tree of single-reader nodes hanging on
the stem, listed root side first); kyupy.batchrange and kyupy.cdiv against their arithmetic meaning.  Differences are
printed as EXTRA lines; the exit code is always 0 unless the machinery fails.
"""
import random

from .core import Check, import_kyupy
from . import gen, nets
from .project import project


def ffr_record(c, what):
    st = project(c)
    st['seq'] = [nets.seq_flag(nd['kind']) for nd in st['nodes']]
    del st['snodes']
    rec = dict(kind='ffr', what=what, st=st, got=[], raised=False)
    try:
        rec['got'] = [dict(stem=int(s.index), region=[int(n.index) for n in reg]) for s, reg in c.fanout_free_regions()]
    except Exception as e:
        rec['raised'] = True
        rec['got'] = []
        rec['err'] = repr(e)[:200]
    return rec


def main(tier=None, replay=None):
    ck = Check('X02', tier)
    import_kyupy()
    import kyupy
    rnd = random.Random(ck.seed)
    recs = []
    from .c17 import mutate
    for t in range(ck.pick(200, 2000)):
        c = gen.gen_circuit(rnd, max_gates=ck.pick(10, 20), max_ff=3, open_pins=False)
        what = 'connected'
        if rnd.random() < 0.25:
            mutate(rnd, c)
            what = 'open-pins'
        elif rnd.random() < 0.3:
            from .c09 import elim_ready
            if elim_ready(c):
                try:
                    c.eliminate_1to1_forks()
                    what = 'after-eliminate'
                except Exception:
                    continue
        recs.append(ffr_record(c, what))
    for t in range(ck.pick(200, 2000)):
        n, m = rnd.choice([0, 1, 2, 7, 8, 9, 31, 32, 33, 255, 256, 257, 1000, 65536, 65537, rnd.randint(0, 100000)]), rnd.choice([1, 2, 3, 8, 32, 256, 1000, 65536, rnd.randint(1, 70000)])
        rec = dict(kind='batch', what='batchrange(%d, %d)' % (n, m), n=n, m=m, got=[], raised=False)
        try:
            got = [[int(a), int(b)] for a, b in kyupy.batchrange(n, m)]
            if len(got) > 400:      # keep the record small: the head, and the tail re-based as if it followed the head
                n2 = n - (len(got) - 400) * m
                got = got[:200] + [[a - (len(got) - 400) * m, b] for a, b in got[-200:]]
                rec['n'] = n2
            rec['got'] = got
        except Exception as e:
            rec.update(raised=True, err=repr(e)[:200])
        recs.append(rec)
    for t in range(ck.pick(300, 3000)):
        x, y = rnd.randint(-100000, 100000), rnd.choice([1, 2, 3, 7, 8, 32, 64, -1, -3, -8, rnd.randint(1, 5000)])
        rec = dict(kind='cdiv', what='cdiv(%d, %d)' % (x, y), x=x, y=y, got=0, raised=False)
        try:
            rec['got'] = int(kyupy.cdiv(x, y))
        except Exception as e:
            rec.update(raised=True, err=repr(e)[:200])
        recs.append(rec)
    for k, x in enumerate(recs):
        x['uid'] = k + 1
    r = ck.tlc_batch('RegionsT', 'RegionsT', traces=recs, label='T:RegionsT', per_shard=150)
    ck.require_clean(r)
    ck.traces += len(recs)
    ck.evaluations += len(recs)
    by = {}
    for i in r.infos:
        if i and i[0] == 'extra':
            x = recs[i[1] - 1]
            by.setdefault((x['kind'], x['what'] if x['kind'] == 'ffr' else '', i[3]), []).append(x)
    for (kind, what, clause), lst in sorted(by.items()):
        x = lst[0]
        print('EXTRA %s %s: %s differs from the specification for %d of %d records, e.g. %s %s' % (
            kind, what, clause, len(lst), sum(1 for y in recs if y['kind'] == kind and (kind != 'ffr' or y['what'] == what)),
            gen.digest(x['st']) if kind == 'ffr' else x['what'], x.get('err', '')))
    ck.extra['differences'] = {'%s/%s/%s' % k: len(v) for k, v in by.items()}
    for x in recs:
        ck.count(x['kind'] + (':' + x['what'] if x['kind'] == 'ffr' else ''))
        ck.nontrivial.add(x['what'] if x['kind'] != 'ffr' else gen.digest(x['st']))
    ck.sample({k: v for k, v in recs[0].items() if k != 'st'})
    return ck.finish('fanout_free_regions on seeded random circuits (<=20 gates, <=3 state elements; fully connected, with removed lines / isolated nodes, after fork elimination); '
                     'batchrange over sizes around 8/16-bit boundaries; cdiv over both signs')
