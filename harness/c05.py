"""C05 - 8-valued logic simulation conservatively predicts timing simulation.

(T) implementation against implementation, judged by TLC (WaveSimT.Abstracts8): for random circuits, delays and
    {0,1,R,F} stimuli with arbitrary grid times, under random option settings of BOTH simulators, the timing
    simulator's captured initial/final values equal the components of the 8-valued LogicSim result, and where that is a
    plain 0/1 the waveform has no transition (s[4]=TMAX, s[5]=TMIN, no finite entry).  Kernel level: the 8-valued
    abstraction of every produced waveform is predicted by the 8-valued operator (KernelT.Abstracts8) - the reason why
    the relation composes through circuits; (M) LogicLaws + WaveEval design runs.
"""
import random

import numpy as np

from .core import Check, import_kyupy
from . import gen, wrec, kernel, lsim

PID = 'C05'


def build(mt):
    from kyupy import wave_sim
    c = gen.circuit_from_state(mt['circuit'])
    d = np.array(mt['delays'], dtype=np.float32)
    rec = wrec.base_record(PID, c, mt['lanes'], d, True, mt['inw'])
    rec['has']['c05'] = True
    try:
        enc = wrec.Enc()
        w = wrec.run_wave(getattr(wave_sim, mt['cls']), c, d, mt['lanes'], mt['caps'], mt['inw'], reuse=mt['wreuse'], strip=mt['wstrip'], via_s=True, warmup=mt.get('warm'), T=mt.get('T'))
        rec.update(wrec.observe(w, c, mt['lanes'], enc, lines=False))
        # the same stimulus as 8-valued codes: 0, 1, R (0->1), F (1->0)
        codes = [[{(0, 0): 0, (1, 1): 3, (0, 1): 5, (1, 0): 6}[(1 if im[0] == -wrec.INF else 0, (len(im) - 1) % 2)] for im in row] for row in mt['inw']]
        s = lsim.run_logic(c, 8, mt['lanes'], codes, reuse=mt['lreuse'], strip=mt['lstrip'])
        rec['resp8'] = lsim.codes(s, 1, mt['lanes'])
    except Exception as e:
        rec['raised'] = True
        rec['err'] = repr(e)[:300]
    return rec


def make(ck, rnd, n):
    recs, metas = [], []
    for t in range(n):
        c = gen.gen_circuit(rnd, max_gates=ck.pick(9, 16), max_ff=2)
        cls = rnd.choice(['WaveSim', 'WaveSimCuda'])
        lanes = rnd.choice([1, 3, 4, 8, 9])
        if cls == 'WaveSimCuda' and rnd.random() < 0.08:
            lanes = rnd.choice([24, 40, 64])      # batches beyond one block of the (mock) GPU launcher
        d = gen.rand_delays(rnd, c, vals=(0, 1, 2, 3, 5))
        wstrip = rnd.random() < 0.4
        if wstrip:
            for f in c.forks.values():
                for l in f.ins:
                    if l is not None:
                        d[:, l.index] = 0
        inw = [[wrec.stim_image(rnd.randint(0, 1), rnd.randint(0, 12), rnd.randint(0, 1)) for _ in range(lanes)] for _ in c.s_nodes]
        if rnd.random() < 0.12:
            # a multiplexer (or AO22 built selector) whose SELECT is an internal hazard: two inputs switching in opposite
            # directions at different times make a pulse on the select while the data inputs are different constants
            from kyupy import bench
            g = rnd.choice(['AND', 'NOR', 'XNOR', 'XOR', 'NAND', 'OR'])
            c = bench.parse('input(a,b,d0,d1) output(z,y) s=%s(a,b) %s z=%s y=%s(t,d0)' % (
                g, rnd.choice(['t=BUF(s)', 't=NOT(s)', 't=AND(s,s)']), rnd.choice(['MUX21(d0,d1,t)', 'MUX21(d1,d0,t)']), rnd.choice(['XOR', 'AND', 'OR'])))
            d = gen.rand_delays(rnd, c, vals=(0, 1, 2, 3, 5))
            wstrip = False
            names = [n.name for n in c.s_nodes]
            inw = []
            for nm in names:
                if nm in ('a', 'b'):
                    inw.append([wrec.stim_image(i, rnd.randint(0, 12), 1 - i) for i in [rnd.randint(0, 1) for _ in range(lanes)]])
                elif nm in ('d0', 'd1'):
                    inw.append([wrec.stim_image(i, 0, i) for i in [rnd.randint(0, 1) for _ in range(lanes)]])
                else:
                    inw.append([wrec.stim_image(0, 0, 0) for _ in range(lanes)])
            ck.count('mux-with-hazard-select')
        warm = wrec.rand_inputs(rnd, c, lanes, multi=rnd.random() < 0.5, tmax=12) if rnd.random() < 0.5 else None
        # initial and final values do not depend on the time at which the outputs are sampled: c_to_s(time=T) with a finite T
        T = rnd.choice([None, None, 0.5, 3.0, 7.5, 12.0])
        mt = dict(T=T, circuit=gen.circuit_state(c), lanes=lanes, delays=d.tolist(), caps=rnd.choice([4, 8, 16, [rnd.choice([4, 8, 16]) for _ in range(len(c.lines) + 3)], [4 if x < len(c.s_nodes) else 16 for x in range(len(c.lines) + 3)]]), inw=inw, warm=warm,
                  cls=cls, wreuse=rnd.random() < 0.5, wstrip=wstrip, lreuse=rnd.random() < 0.5, lstrip=rnd.random() < 0.5)
        mt['desc'] = '%s wave(reuse=%s strip=%s) logic(reuse=%s strip=%s) caps=%s T=%s' % (mt['cls'], mt['wreuse'], mt['wstrip'], mt['lreuse'], mt['lstrip'], mt['caps'] if isinstance(mt['caps'], int) else 'per-line', T)
        recs.append(build(mt))
        metas.append(mt)
    return recs, metas


def main(tier=None, replay=None):
    ck = Check(PID, tier)
    import_kyupy()
    rnd = random.Random(ck.seed + 5)
    if replay:
        import json
        ck.is_replay = True
        mt = json.load(open(replay))['case']['input']
        if 'kernel' in mt:
            kernel.replay(ck, mt)
        else:
            wrec.judge(ck, [build(mt)], [mt], (PID,))
        return ck.finish('replay')
    r = ck.tlc('LogicLaws', 'LogicLaws', label='M:LogicLaws', cont=False)
    ck.require_clean(r, allow_violation=False)
    kernel.run(ck, rnd, (PID,))
    recs, metas = make(ck, rnd, ck.pick(300, 2000))
    wrec.judge(ck, recs, metas, (PID,))
    const = sum(1 for x in recs for row in x['resp8'] for v in row if v in (0, 3))
    haz = sum(1 for x in recs for row in x['resp8'] for v in row if v in (4, 7))
    ck.count('hazard-free-constants', const)
    ck.count('pulse-predictions', haz)
    ck.count('transitions', sum(1 for x in recs for row in x['resp8'] for v in row if v in (5, 6)))
    ck.need_cover(['hazard-free-constants', 'pulse-predictions', 'transitions'])
    for m in metas:
        ck.nontrivial.add(gen.digest(m['circuit']) + gen.digest(m['inw']))
    ck.sample(dict(stimulus=metas[0]['inw'][0], logic8_result=recs[0]['resp8'], wave_capture=recs[0]['s']))
    ck.assumptions += ['stimuli over {0,1,R,F}: one transition per input at most', 'zero delay on fork inputs when the timing simulator strips forks',
                       'TLC, JSON reader, harness projection']
    return ck.finish('seeded random circuits x delays x {0,1,R,F} stimuli with grid times x {WaveSim, WaveSimCuda} x random c_reuse/strip_forks of both '
                     'simulators; kernel configurations as in C03; distinct by (circuit, stimulus)')
