"""C07 - The published level partition is a valid parallel schedule.

Verdict 1 (M on published data): Schedule.tla executes what the real SimOps published - every interleaving of
  Begin/End events for schedules with narrow levels, the level-wise static form for all - ReadsValid, RaceFree.
Verdict 2 (R): ThreadOrder.tla (TLC simulation) generates orders of the operations / (lane, operation) threads of
  every level; they are executed on the real LogicSim, WaveSim (rows of ops permuted) and WaveSimCuda (mock launcher
  visiting the grid in that order); SchedReplay.tla requires bit-identical memories, results and activity counts.
"""
import random

import numpy as np

from .core import Check, MachineryError, import_kyupy, parse_tla_value
from . import gen, sched, wsim

PID = 'C07'


def extract(out, tag):
    """All values <<"tag", ...>> printed by TLC (possibly pretty-printed over several lines)."""
    import re
    vals = []
    for m in re.finditer(r'<<\s*"%s"' % tag, out):
        i = j = m.start()
        depth = 0
        while True:
            if out.startswith('<<', j):
                depth += 1
                j += 2
            elif out.startswith('>>', j):
                depth -= 1
                j += 2
                if depth == 0:
                    break
            else:
                j += 1
        vals.append(parse_tla_value(out[i:j]))
    return vals


def make_inputs(ck, rnd, n):
    inputs = []
    from . import c01
    small = c01.tlc_circuits(ck, rnd, ck.pick(8, 200))      # every small netlist of the bounded builder model NetBuild.tla first
    wide = [gen.layered_circuit(rnd, rnd.choice([70, 96, 130]), 3) for _ in range(ck.pick(1, 4))]    # scale: levels in which more than 64 signals die
    for t in range(n + len(small) + len(wide)):
        # (parity logic with the smallest capacity: waveforms fill up and overflow - an operation must stay inside its own memory)
        parity = rnd.random() < 0.25
        c = small[t] if t < len(small) else wide[t - n - len(small)] if t >= n + len(small) else gen.parity_circuit(rnd) if parity else gen.gen_circuit(rnd, max_gates=ck.pick(8, 12), max_ff=2)
        nl = len(c.lines)
        caps = 4 if parity else rnd.choice([4, 8, [rnd.choice([4, 8, 12]) for _ in range(nl + 3)]])
        sims = rnd.choice([1, 2, 3])
        d = gen.rand_delays(rnd, c, vals=(0, 1, 2, 3))
        stim = wsim.rand_wave_stim(rnd, len(c.s_nodes), sims)
        lstim = [[rnd.randint(0, 7) for _ in range(sims)] for _ in range(len(c.s_nodes))]
        actrl = wsim.rand_actrl(rnd, c) if rnd.random() < 0.5 else None
        for reuse in (False, True):
            for strip in (False, True):
                inputs.append(dict(circuit=gen.circuit_state(c), caps=caps, sims=sims, delays=d.tolist(),
                                   stim=[x.tolist() for x in stim], lstim=lstim, actrl=actrl.tolist() if actrl is not None else None,
                                   reuse=reuse, strip=strip, m=rnd.choice([2, 4, 8])))
    return inputs


def build(inp, kind):
    from kyupy.wave_sim import WaveSim, WaveSimCuda
    from kyupy.logic_sim import LogicSim
    from kyupy import logic
    c = gen.circuit_from_state(inp['circuit'])
    if kind == 'logic':
        s = LogicSim(c, sims=inp['sims'], m=inp['m'], c_reuse=inp['reuse'], strip_forks=inp['strip'])
        mv = np.array(inp['lstim'], dtype=np.uint8)
        if inp['m'] == 2:
            mv = np.where(mv & 1, 3, 0).astype(np.uint8)
        elif inp['m'] == 4:
            mv = mv & 3
        s.s[0] = logic.mv_to_bp(mv)
        return c, s
    cls = WaveSim if kind == 'wave' else WaveSimCuda
    d = np.array(inp['delays'], dtype=np.float32)
    if inp['strip']:
        for f in c.forks.values():
            for l in f.ins:
                if l is not None:
                    d[:, l.index] = 0
    a = np.array(inp['actrl'], dtype=np.int32) if inp['actrl'] is not None else None
    w = cls(c, d, sims=inp['sims'], c_caps=inp['caps'], a_ctrl=a, c_reuse=inp['reuse'], strip_forks=inp['strip'])
    w.simctl_int[1] = 0
    st = [np.array(x, dtype=np.float32) for x in inp['stim']]
    s = np.array(w.s)
    s[0], s[1], s[2] = st
    w.s[...] = s
    return c, w


def run_sim(inp, kind, order=None, rnd=None):
    """Sequential run (order None) or run under a TLC-generated order; returns the observation record."""
    import kyupy.wave_sim as kws
    try:
        c, w = build(inp, kind)
        per = None
        if order is not None:
            levels = list(zip(np.array(w.level_starts).tolist(), np.array(w.level_stops).tolist()))
            per = wsim.level_perm_from_order(levels, order)
        if kind == 'logic':
            if per is not None:
                wsim.permute_ops(w, per)
            w.s_to_c(); w.c_prop(); w.c_to_s()
            return dict(wsim.observe_logic(w), raised=False)
        if kind == 'wave':
            if per is not None:
                wsim.permute_ops(w, per)
            w.s_to_c(); w.c_prop(seed=0); w.c_to_s()
            return dict(wsim.observe_wave(w), raised=False)
        # mock GPU: thread order of every launch
        orig = kws.wave_eval_gpu
        try:
            if order is not None:
                tho = [[] for _ in per]
                for l, pos, lane in order:
                    tho[l - 1].append((lane - 1, pos - 1))
                kws.wave_eval_gpu = wsim.OrderedLauncher(orig.func, kws.cuda, tho, rnd)
            w.s_to_c(); w.c_prop(seed=0); w.c_to_s()
        finally:
            kws.wave_eval_gpu = orig
        return dict(wsim.observe_wave(w), raised=False)
    except Exception as e:
        return dict(c='', s='', a='', raised=True, err=repr(e)[:200])


def published(inp):
    from kyupy.sim import SimOps
    c = gen.circuit_from_state(inp['circuit'])
    s = SimOps(c, c_caps=inp['caps'], c_caps_min=4, c_reuse=inp['reuse'], strip_forks=inp['strip'])
    return sched.export_schedule(c, s, inp['strip'], inp['reuse'])


def verdict1(ck, inputs):
    cases = []
    for inp in inputs:
        try:
            cases.append(published(inp))
        except Exception as e:
            cases.append(None)
            ck.violation('sched:raised:' + gen.digest(inp['circuit']) + str(inp['reuse']) + str(inp['strip']),
                         'SimOps raised %r' % e, dict(kind='sched', input=inp))
    idx = [i for i, x in enumerate(cases) if x is not None]
    r = ck.tlc_batch('Schedule', 'Schedule_level', traces=[cases[i] for i in idx], label='M:Schedule_level', per_shard=40)
    ck.require_clean(r)

    def report(r, sub, how):
        for p, tid, lvl, clause in r.fails:
            if p != PID:
                continue
            inp = inputs[sub[tid - 1]]
            ck.violation('sched:%s:%s:%s%s' % (clause, gen.digest(inp['circuit']), int(inp['reuse']), int(inp['strip'])),
                         'published schedule violates %s at level %d (%s; reuse=%s strip=%s)' % (clause, lvl, how, inp['reuse'], inp['strip']),
                         dict(kind='sched', input=inp, clause=clause, level=lvl))
    report(r, idx, 'level-wise form')
    wmax = ck.pick(5, 7)
    small = [i for i in idx if sched.max_level_width(cases[i]) <= wmax][:ck.pick(64, 480)]
    if small:
        r2 = ck.tlc_batch('Schedule', 'Schedule_inter', traces=[cases[i] for i in small], label='M:Schedule_inter', per_shard=6, timeout=1700)
        ck.require_clean(r2)
        report(r2, small, 'some interleaving of Begin/End events')
        ck.count('schedules-all-interleavings', len(small))
    ck.count('schedules-levelwise', len(idx))
    ck.count('schedules-strip', sum(1 for i in idx if inputs[i]['strip']))
    ck.count('schedules-reuse', sum(1 for i in idx if inputs[i]['reuse']))
    ck.count('widest-level', max(sched.max_level_width(cases[i]) for i in idx))
    ck.evaluations += len(idx)
    for i in idx:
        ck.nontrivial.add(gen.digest(cases[i]['ops']) + str(inputs[i]['reuse']) + str(inputs[i]['strip']))
    ck.sample(dict(published_schedule=dict(ops=cases[idx[0]]['ops'][:6], levels=cases[idx[0]]['levels'], clen=cases[idx[0]]['clen'])))
    return cases


def spec_consistency(ck, cases, rnd):
    """(M) Both specifications over the same definitions must give the same verdict - also on deliberately broken
    schedules (levels merged, an operation moved into the previous level, two outputs of one level aliased).  This is
    a check of the SPECIFICATION (machinery failure if it does not hold), and the vacuity guard of ReadsValid/RaceFree."""
    import copy
    small = [x for x in cases if x is not None and 2 <= len(x['levels']) and sched.max_level_width(x) <= 4 and len(x['ops']) <= 14][:12]
    broken, kinds = [], []
    for x in small:
        lv = x['levels']
        i = rnd.randrange(len(lv) - 1)
        y = copy.deepcopy(x)
        y['levels'] = lv[:i] + [[lv[i][0], lv[i + 1][1]]] + lv[i + 2:]
        broken.append(y); kinds.append('merged')
        y = copy.deepcopy(x)
        y['levels'][i][1] += 1
        y['levels'][i + 1][0] += 1
        if y['levels'][i + 1][0] < y['levels'][i + 1][1]:
            broken.append(y); kinds.append('moved')
        wide = [l for l in lv if l[1] - l[0] >= 2]
        if wide:
            l = rnd.choice(wide)
            o1, o2 = x['ops'][l[0]][0], x['ops'][l[0] + 1][0]
            if o1 != o2 and o1 < len(x['st']['lines']) and o2 < len(x['st']['lines']):
                y = copy.deepcopy(x)
                y['loc'][o2] = y['loc'][o1]
                y['cap'][o2] = y['cap'][o1]
                broken.append(y); kinds.append('aliased')
    if not broken:
        raise MachineryError('no small schedule to break')
    res = {}
    for cfg in ('Schedule_level', 'Schedule_inter'):
        r = ck.tlc_batch('Schedule', cfg, traces=broken, label='M:broken:' + cfg, per_shard=6, timeout=1500)
        ck.require_clean(r)
        res[cfg] = {f[1] for f in r.fails if f[3] in ('ReadsValid', 'RaceFree')}
    if res['Schedule_level'] != res['Schedule_inter']:
        raise MachineryError('the two Schedule specifications disagree on broken schedules: level-wise %s, interleaving %s' % (
            sorted(res['Schedule_level']), sorted(res['Schedule_inter'])))
    flagged = res['Schedule_level']
    for k in ('merged', 'aliased'):
        idx = [i + 1 for i, kk in enumerate(kinds) if kk == k]
        if idx and not (set(idx) & flagged):
            raise MachineryError('broken schedules of kind %s are not rejected by the specification' % k)
    ck.count('broken-schedules-rejected-by-both-specs', len(flagged))
    ck.count('broken-schedules', len(broken))


def verdict2(ck, inputs, cases, rnd, n_orders):
    sub = [i for i, x in enumerate(cases) if x is not None and sched.max_level_width(x) <= 60][:ck.pick(160, 1200)]
    tcases = []
    for i in sub:
        widths = [b - a for a, b in cases[i]['levels']]
        tcases.append(dict(widths=widths, lanes=inputs[i]['sims']))
    r = ck.tlc('ThreadOrder', 'ThreadOrder', trace=tcases, workers=1, simulate='num=%d' % n_orders, depth=2000,
               extra=['-seed', str(ck.seed % 100000)], label='R:ThreadOrder', cont=False, timeout=1200)
    ck.require_clean(r, allow_violation=False)
    orders = extract(r.out, 'ORDER')
    if not orders:
        raise MachineryError('ThreadOrder generated no schedule')
    by = {}
    for _, tid, order in orders:
        by.setdefault(tid, []).append(order)
    recs, meta = [], []
    for tid, olist in sorted(by.items()):
        inp = inputs[sub[tid - 1]]
        for kind in ('logic', 'wave', 'cuda'):
            seq = run_sim(inp, kind)
            if seq['raised']:
                ck.violation('replay:seq-raised:%s:%s' % (kind, gen.digest(inp)), 'sequential run raised ' + seq.get('err', ''), dict(kind='replay', input=inp, sim=kind))
                continue
            runs = [run_sim(inp, kind, order=o, rnd=random.Random(ck.seed + k)) for k, o in enumerate(olist[:3])]
            recs.append(dict(seq=seq, runs=runs))
            meta.append((inp, kind, olist[:3]))
            ck.count('replayed-orders:' + kind, len(runs))
    rr = ck.tlc_batch('SchedReplay', 'SchedReplay', traces=recs, label='T:SchedReplay', per_shard=400)
    ck.require_clean(rr)
    ck.traces += sum(len(x['runs']) for x in recs)
    for p, tid, k, clause in rr.fails:
        inp, kind, olist = meta[tid - 1]
        ck.violation('replay:%s:%s:%s' % (clause, kind, gen.digest(inp)),
                     '%s: run under a TLC-generated order differs from the sequential run (%s, reuse=%s strip=%s)' % (clause, kind, inp['reuse'], inp['strip']),
                     dict(kind='replay', input=inp, sim=kind, order=olist[k - 1], clause=clause))
    ck.sample(dict(tlc_generated_order=orders[0][2][:12], meaning='<<level, op position in level, lane>>'))


def main(tier=None, replay=None):
    ck = Check(PID, tier)
    import_kyupy()
    rnd = random.Random(ck.seed)
    if replay:
        ck.is_replay = True
        import json
        case = json.load(open(replay))['case']
        inp = case['input']
        if case['kind'] == 'sched':
            verdict1(ck, [inp])
        else:
            seq = run_sim(inp, case['sim'])
            run = run_sim(inp, case['sim'], order=case.get('order'), rnd=random.Random(ck.seed))
            rr = ck.tlc('SchedReplay', 'SchedReplay', trace=[dict(seq=seq, runs=[run])], workers=1)
            for p, tid, k, clause in rr.fails:
                ck.violation('replay:%s' % clause, clause, case)
        return ck.finish('replay')
    inputs = make_inputs(ck, rnd, ck.pick(70, 450))
    cases = verdict1(ck, inputs)
    spec_consistency(ck, cases, rnd)
    verdict2(ck, inputs, cases, rnd, ck.pick(500, 4000))
    ck.need_cover(['schedules-all-interleavings', 'replayed-orders:logic', 'replayed-orders:wave', 'replayed-orders:cuda'])
    ck.assumptions += ['a mock-GPU thread runs to completion (MockCuda semantics); threads of different lanes touch disjoint columns',
                       'scratch slots (outputs of gates with unconnected output) are exempt and masked', 'TLC, JSON reader, harness projection']
    return ck.finish('random circuits (<=12 gates, flip-flops, latches, branch forks, open pins) x capacities x {c_reuse} x {strip_forks}: '
                     'published schedule executed in Schedule.tla (all interleavings if widest level <= bound, level-wise always); '
                     'TLC-simulated thread orders replayed on LogicSim/WaveSim/WaveSimCuda; distinct by (ops, reuse, strip)')
