"""C12 - Multi-valued operators agree across both storage formats and the algebra.

(M) LogicLaws.tla: plane form = code form for all tuples, Boolean restriction, De Morgan, k-ary = folded binary;
(T) the real mv_not/and/or/xor and bp4v_*/bp8v_* (1..4 operands) on EVERY operand tuple (8^k, 4^k), every tuple at
    every lane position of the packed bytes, array shapes (), (n,), (m,n), (a,m,n) with broadcasting, with and
    without out= (also out aliasing an operand, as the simulator uses it) - judged element by element by OpsT.tla.
"""
import itertools
import random

import numpy as np

from .core import Check, MachineryError, import_kyupy
from . import gen

PID = 'C12'


def mv_records(rnd, thorough):
    from kyupy import logic
    recs = []
    fns = dict(not_=logic.mv_not, and_=logic.mv_and, or_=logic.mv_or, xor=logic.mv_xor)

    def call(fn, name, arrays, out_mode, pyint=None):
        """out_mode: None | 'fresh' (zero-filled) | 'dirty' (stale data) | 'scalar0';  pyint: position of a 0-d operand that
        is handed over as a plain Python int (the way the module's own constants logic.ZERO ... logic.NPULSE are)"""
        bs = np.broadcast_shapes(*[a.shape for a in arrays])
        rec = dict(fn=name, form='mv', shapes=[list(a.shape) for a in arrays], raised=False, mode=str(out_mode) + ('' if pyint is None else '-pyint'))
        rec['ins'] = [np.broadcast_to(a, bs).reshape(-1).astype(int).tolist() for a in arrays]
        if pyint is not None:
            arrays = [int(a) if k == pyint else a for k, a in enumerate(arrays)]
        try:
            if out_mode is None:
                r = fn(*arrays)
                o = r
            else:
                # (out= of another integer type: np.full(shape, logic.UNASSIGNED) is int64, stil.py passes such arrays)
                dt = {'fresh-int64': np.int64, 'dirty-int32': np.int32}.get(out_mode, np.uint8)
                o = np.zeros(bs, dtype=dt) if out_mode.startswith('fresh') else np.full(bs, rnd.choice([1, 2, 3, 5, 7]), dtype=dt)
                # the documented signatures are mv_xxx(x1, x2, out=None) / mv_not(x1, out=None): out may be given by position
                r = fn(*arrays, o) if out_mode in ('dirty', 'fresh-int64') else fn(*arrays, out=o)
            r = np.asarray(r)
            rec['res'] = r.reshape(-1).astype(int).tolist()
            rec['arr'] = np.asarray(o).reshape(-1).astype(int).tolist()
            rec['rshape'] = list(r.shape)
        except Exception as e:
            rec.update(raised=True, res=[], arr=[], rshape=[], err=repr(e)[:200])
        return rec

    vals = np.arange(8, dtype=np.uint8)
    a2, b2 = np.meshgrid(vals, vals, indexing='ij')
    for mode in (None, 'fresh', 'dirty', 'fresh-int64', 'dirty-int32'):
        recs.append(call(fns['not_'], 'not', [vals.copy()], mode))
        for name in ('and', 'or', 'xor'):
            fn = fns[name + '_' if name != 'xor' else 'xor']
            recs.append(call(fn, name, [a2.reshape(-1).copy(), b2.reshape(-1).copy()], mode))     # all 64 pairs, 1-D
            recs.append(call(fn, name, [a2.copy(), b2.copy()], mode))                              # 2-D
            recs.append(call(fn, name, [vals.reshape(8, 1).copy(), vals.reshape(1, 8).copy()], mode))   # broadcasting
            recs.append(call(fn, name, [vals.reshape(1, 8, 1).copy(), vals.reshape(2, 1, 4).copy()[:, :, :] % 8], mode))
    # one operand a constant of the module (a Python int), the other an array (operand ARRAYS of other integer types are
    # not promised: mv_xor(int32 array, uint8 array) raises a casting error on the unchanged tree)
    for name in ('and', 'or', 'xor'):
        fn = fns[name + '_' if name != 'xor' else 'xor']
        for v in range(8):
            recs.append(call(fn, name, [vals.copy(), np.array(v, dtype=np.uint8)], None, pyint=1))
            recs.append(call(fn, name, [np.array(v, dtype=np.uint8), vals.copy()], 'fresh', pyint=0))
    # the SAME array object on two operands (x op x is not 0 / x in a multi-valued algebra: XOR(X, X) = X, XOR(R, R) = P)
    for mode in (None, 'fresh'):
        for name in ('and', 'or', 'xor'):
            fn = fns[name + '_' if name != 'xor' else 'xor']
            x = vals.copy()
            r = call(fn, name, [x, x], mode)
            r['mode'] = 'sameobj'
            recs.append(r)
    # out= given as a non-contiguous view of a larger buffer (every second column, a transposed buffer)
    for name in ('not', 'and', 'or', 'xor'):
        fn = fns[name + '_' if name != 'xor' else 'xor']
        a = np.array([[rnd.randint(0, 7) for _ in range(5)] for _ in range(4)], dtype=np.uint8)
        b = np.array([[rnd.randint(0, 7) for _ in range(5)] for _ in range(4)], dtype=np.uint8)
        for kind in ('stride', 'transpose'):
            arrays = [a] if name == 'not' else [a, b]
            rec = dict(fn=name, form='mv', shapes=[[4, 5]] * len(arrays), raised=False, mode='view-' + kind,
                       ins=[x.reshape(-1).astype(int).tolist() for x in arrays])
            try:
                buf = np.full((4, 10), 7, dtype=np.uint8) if kind == 'stride' else np.full((5, 4), 7, dtype=np.uint8)
                o = buf[:, ::2] if kind == 'stride' else buf.T
                r = fn(*arrays, out=o)
                rec['res'] = np.asarray(r).reshape(-1).astype(int).tolist()
                rec['arr'] = np.asarray(o).reshape(-1).astype(int).tolist()
                rec['rshape'] = list(np.asarray(r).shape)
            except Exception as e:
                rec.update(raised=True, res=[], arr=[], rshape=[], err=repr(e)[:200])
            recs.append(rec)
    # the k-ary array forms behind the binary operators (k = 1..4), where the module has them
    import itertools
    for name in ('and', 'or', 'xor'):
        kfn = getattr(logic, '_mv_' + name, None)
        if kfn is None:
            continue
        for k in (1, 3, 4):
            tuples = np.array(list(itertools.product(range(8), repeat=k)), dtype=np.uint8)
            ins = [tuples[:, j].copy() for j in range(k)]
            rec = dict(fn=name, form='mv', shapes=[[len(tuples)]] * k, raised=False, mode='kary', ins=[x.astype(int).tolist() for x in ins])
            try:
                o = np.full(len(tuples), 5, dtype=np.uint8)
                kfn(o, *ins)
                rec['res'] = o.astype(int).tolist()
                rec['arr'] = rec['res']
                rec['rshape'] = [len(tuples)]
            except Exception as e:
                rec.update(raised=True, res=[], arr=[], rshape=[], err=repr(e)[:200])
            recs.append(rec)
    # shapes: scalar-like 0-d arrays, one-element arrays (holding 0 and non-0), higher ranks, random broadcasting
    shapes = [(), (1,), (3,), (2, 3), (2, 1, 3), (1, 1), (4, 2, 3)]
    for _ in range(120 if thorough else 40):
        name = rnd.choice(['and', 'or', 'xor', 'not'])
        s1 = rnd.choice(shapes)
        a = np.array([rnd.randint(0, 7) for _ in range(int(np.prod(s1)) if s1 else 1)], dtype=np.uint8).reshape(s1)
        if name == 'not':
            recs.append(call(fns['not_'], 'not', [a], rnd.choice([None, 'fresh', 'dirty'])))
            continue
        cand = [s for s in shapes if _compat(s, s1)]
        s2 = rnd.choice(cand)
        b = np.array([rnd.randint(0, 7) for _ in range(int(np.prod(s2)) if s2 else 1)], dtype=np.uint8).reshape(s2)
        fn = fns[name + '_' if name != 'xor' else 'xor']
        recs.append(call(fn, name, [a, b], rnd.choice([None, 'fresh', 'dirty'])))
    return recs


def _compat(s, t):
    try:
        np.broadcast_shapes(s, t)
        return True
    except ValueError:
        return False


def bp_records(rnd, thorough):
    """Every k-tuple (k=1..4) at every lane position; neighbours in the same byte differ (they are other tuples)."""
    from kyupy import logic
    recs = []
    for form, nv, nplanes in (('bp8', 8, 3), ('bp4', 4, 2)):
        fns = dict(not_=getattr(logic, form[:2] + form[2] + 'v_not'), and_=getattr(logic, form[:2] + form[2] + 'v_and'),
                   or_=getattr(logic, form[:2] + form[2] + 'v_or'), xor=getattr(logic, form[:2] + form[2] + 'v_xor'))
        # whole value set, then arrays confined to a subset of the values (no unknown anywhere in the array, two-valued
        # data only, transitions only, unknowns only): the result of a lane must not depend on what other lanes hold
        doms = [list(range(nv))] + ([[0, 3, 4, 5, 6, 7], [0, 3], [0, 3, 5, 6], [4, 5, 6, 7], [1, 2]] if nv == 8 else [[0, 3], [1, 2], [0, 1, 3]])
        for dom, k in itertools.product(doms, (1, 2, 3, 4)):
            tuples = np.array(list(itertools.product(dom, repeat=k)), dtype=np.uint8)    # (T, k)
            T = len(tuples)
            for off in (range(8) if len(dom) == nv else (0, 3)):
                order = np.roll(np.arange(T), off)                  # tuple i sits at lane (i + off) mod 8 of its byte
                if off:
                    order = np.concatenate([order, order[:(-T) % 8 or 0]])
                ops = [logic.mv_to_bp(tuples[order, j].reshape(1, -1))[..., :nplanes, :] for j in range(k)]   # (1, planes, bytes)
                names = ['not'] if k == 1 else []
                names += ['and', 'or', 'xor']
                for name in names:
                    fn = fns[name + '_' if name != 'xor' else 'xor']
                    variants = [(False, False), (True, False)] if name == 'not' else [(False, False)]
                    if form == 'bp4' and off < 2:
                        variants.append((False, True))
                    for alias, wide in variants:   # in-place NOT is what the simulator uses; aliasing is not promised for the others
                        ins = [o.copy() for o in ops]
                        if wide:
                            # 4-valued operators on the standard three-plane arrays (mv_to_bp / bparray): the third plane is not
                            # theirs - it may hold anything, e.g. what an earlier bp4v operation left there
                            ins = [np.concatenate([o, np.full_like(o[..., :1, :], rnd.choice([0xff, 0x5a, 0x0f]))], axis=-2) for o in ops]
                        rec = dict(fn=name, form=form, shapes=[], rshape=[], raised=False, mode='alias' if alias else 'planes3' if wide else 'out',
                                   ins=[tuples[order, j].astype(int).tolist() for j in range(k)])
                        try:
                            out = ins[0] if alias else np.full_like(ins[0], rnd.choice([0, 0x55, 0xff]))
                            r = fn(out, *ins[:1]) if name == 'not' else fn(out, *ins)
                            full = np.zeros((1, 3, out.shape[-1]), dtype=np.uint8)
                            full[..., :nplanes, :] = r[..., :nplanes, :]
                            full2 = np.zeros((1, 3, out.shape[-1]), dtype=np.uint8)
                            full2[..., :nplanes, :] = out[..., :nplanes, :]
                            n = len(order)
                            rec['res'] = logic.bp_to_mv(full)[0, :n].astype(int).tolist()
                            rec['arr'] = logic.bp_to_mv(full2)[0, :n].astype(int).tolist()
                        except Exception as e:
                            rec.update(raised=True, res=[], arr=[], err=repr(e)[:200])
                        recs.append(rec)
                if not thorough and k == 4 and off >= 2 and len(dom) == nv:
                    break
        # the same array object on several operands
        for k in (2, 3, 4):
            allv = np.arange(nv, dtype=np.uint8)
            a = logic.mv_to_bp(allv.reshape(1, -1))[..., :nplanes, :]
            for name in ('and', 'or', 'xor'):
                fn = fns[name + '_' if name != 'xor' else 'xor']
                for pat in ([0] * k, [0, 1] * 2):
                    pat = pat[:k]
                    b = logic.mv_to_bp(((allv + 3) % nv).reshape(1, -1))[..., :nplanes, :]
                    objs = [a, b]
                    vv = [allv, (allv + 3) % nv]
                    rec = dict(fn=name, form=form, shapes=[], rshape=[], raised=False, mode='sameobj', ins=[vv[j].astype(int).tolist() for j in pat])
                    try:
                        out = np.full_like(a, 0x55)
                        r = fn(out, *[objs[j] for j in pat])
                        full = np.zeros((1, 3, out.shape[-1]), dtype=np.uint8)
                        full[..., :nplanes, :] = r[..., :nplanes, :]
                        full2 = np.zeros((1, 3, out.shape[-1]), dtype=np.uint8)
                        full2[..., :nplanes, :] = out[..., :nplanes, :]
                        rec['res'] = logic.bp_to_mv(full)[0, :nv].astype(int).tolist()
                        rec['arr'] = logic.bp_to_mv(full2)[0, :nv].astype(int).tolist()
                    except Exception as e:
                        rec.update(raised=True, res=[], arr=[], err=repr(e)[:200])
                    recs.append(rec)
    return recs


def main(tier=None, replay=None):
    ck = Check(PID, tier)
    import_kyupy()
    rnd = random.Random(ck.seed)
    r = ck.tlc('LogicLaws', 'LogicLaws', label='M:LogicLaws', cont=False)
    ck.require_clean(r, allow_violation=False)
    if r.rc != 0:
        raise MachineryError('LogicLaws inconsistent: %s' % r.invariant_violations)
    recs = mv_records(rnd, ck.thorough) + bp_records(rnd, ck.thorough)
    if replay:
        import json
        ck.is_replay = True
        want = json.load(open(replay))['case']['sig']
        recs = [x for x in recs if sig(x) == want]
    rr = ck.tlc_batch('OpsT', 'OpsT', traces=recs, label='T:OpsT', per_shard=12, timeout=1500)
    ck.require_clean(rr)
    ck.traces += len(recs)
    ck.evaluations += sum(len(x['res']) for x in recs)
    for pid, tid, _, clause in rr.fails:
        x = recs[tid - 1]
        ck.violation('%s:%s' % (clause, sig(x)), '%s fails for %s %s with %d operand(s), mode %s %s' % (
            clause, x['form'], x['fn'], len(x['ins']), x['mode'], x.get('err', '')), dict(kind='ops', sig=sig(x), sample=dict(ins=[i[:16] for i in x['ins']], res=x['res'][:16])))
    for x in recs:
        ck.count('%s-%s-k%d' % (x['form'], x['fn'], len(x['ins'])))
        ck.count('mode:' + x['mode'])
        ck.nontrivial.add(sig(x))
    ck.need_cover(['bp8-and-k4', 'bp4-xor-k3', 'bp8-not-k1', 'mv-and-k2', 'mv-not-k1', 'mode:dirty', 'mode:fresh', 'mode:fresh-int64', 'mode:dirty-int32', 'mode:alias', 'mode:None', 'mode:view-stride', 'mode:view-transpose', 'mode:kary', 'mode:planes3', 'mode:sameobj'])
    ck.sample(dict(fn=recs[5]['fn'], form=recs[5]['form'], shapes=recs[5]['shapes'], ins=[i[:8] for i in recs[5]['ins']], res=recs[5]['res'][:8]))
    ck.extra['exhaustive'] = True
    ck.assumptions += ['public API only: mv_* are unary/binary, bp*v_* take 1..4 operands', 'TLC, JSON reader, NumPy broadcasting used to flatten operands']
    return ck.finish('all 8^k (k=1..4) and 4^k operand tuples of the bit-parallel operators, each tuple at each of the 8 lane positions (quick: k=4 at 3 '
                     'positions); all 64 pairs / 8 values of the array operators in 1-D, 2-D and broadcast layouts plus seeded random shapes; with no out=, '
                     'zero-filled out=, stale out= and out aliasing an operand; distinct by (form, fn, arity, layout, mode)')


def sig(x):
    return '%s/%s/k%d/%s/%s/%s' % (x['form'], x['fn'], len(x['ins']), x['mode'], x['shapes'], gen.digest(x['ins'])[:6])
