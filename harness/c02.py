"""C02 - 4-/8-valued simulation follows the documented algebra and is X-sound.

(M) LogicLaws.tla: for every primitive and all 8^4 / 4^4 operand tuples the bit-plane formulas equal the code
    semantics, X-soundness against every completion, the 8 -> 2 projection, closure of the 4-valued sub-algebra;
(T) observations of the real LogicSim in 4- and 8-valued mode on random circuits and stimuli (lanes arranged in
    completion families) judged by LogicSimT.tla: CapturedIsEval (gate-by-gate composition of the documented
    operators), XSound and Proj8To2 evaluated directly on the observed results.
"""
import random

from .core import Check, MachineryError, import_kyupy
from . import gen, lsim, c01

PID = 'C02'


def main(tier=None, replay=None):
    ck = Check(PID, tier)
    import_kyupy()
    rnd = random.Random(ck.seed + 2)
    if replay:
        import json
        ck.is_replay = True
        c01.replay_case(ck, json.load(open(replay))['case'], (PID,))
        return ck.finish('replay')
    r = ck.tlc('LogicLaws', 'LogicLaws', label='M:LogicLaws', cont=False, coverage=False)
    ck.require_clean(r, allow_violation=False)
    if r.rc != 0:
        raise MachineryError('LogicLaws: the specification of the algebra is inconsistent: %s' % r.invariant_violations)
    ck.evaluations += 33 * (8 ** 4 + 4 ** 4)
    circuits = c01.make_circuits(ck, rnd, ck.pick(110, 1100))
    recs, meta = c01.records(ck, rnd, circuits, (4, 8))
    c01.judge(ck, recs, meta, (PID,))
    # scale: more than 65 536 signals / memory locations in one simulator, judged chain by chain
    crecs = [c01.chains_record(rnd.randrange(1 << 30), m, 34, 1000, lanes=rnd.choice([3, 5]), reuse=False, strip=False) for m in ((rnd.choice([4, 8]),) if not ck.thorough else (4, 8, 8))]
    c01.judge_chains(ck, crecs, (PID,))
    fam = known = 0
    for rec in recs:
        st = rec['stim']
        cols = list(zip(*st)) if st else []
        known += sum(1 for col in cols if all(v not in (1, 2) for v in col)) if rec['m'] == 8 else 0
        fam += sum(1 for a in cols for b in cols if a is not b and any(v in (1, 2) for v in a) and all((y == x) if x not in (1, 2) else y in (0, 3) for x, y in zip(a, b)))
    ck.count('completion-pairs', fam)
    ck.count('all-known-8v-lanes', known)
    ck.count('records-m4', sum(1 for m in meta if m['m'] == 4))
    ck.count('records-m8', sum(1 for m in meta if m['m'] == 8))
    ck.count('records-reuse', sum(1 for m in meta if m['reuse']))
    ck.count('records-strip', sum(1 for m in meta if m['strip']))
    ck.count('records-static-batch-after-transitions', sum(1 for m in meta if m.get('static')))
    ck.count('records-4-valued-cycles', sum(1 for m in meta if m['m'] == 4 and m['cyc']))
    ck.need_cover(['completion-pairs', 'all-known-8v-lanes', 'records-m4', 'records-m8', 'records-reuse', 'records-strip', 'records-static-batch-after-transitions', 'records-4-valued-cycles'])
    for mt in meta:
        ck.nontrivial.add(gen.digest(mt['circuit']) + str(mt['m']))
    ck.sample(dict(m=meta[-1]['m'], lanes=meta[-1]['lanes'], stim_codes_row0=meta[-1]['stim'][0], resp_row_last=recs[-1]['resp'][-1] if recs[-1]['resp'] else None))
    ck.assumptions += ['interface elements pass their assigned code on unchanged (a BUF1 copy, no X-normalisation), as the simulator documents',
                       'Proj8To2 is evaluated on lanes whose stimuli are all known values {0,1,P,R,F,N}: the components of X and - are an encoding artefact',
                       'TLC, JSON reader, harness projection']
    return ck.finish('same circuit families as C01 x m in {4,8} x stimuli over {0,1,X,-} / all eight values with completion families x '
                     '{c_reuse} x {strip_forks}; distinct by (circuit digest, m)')
