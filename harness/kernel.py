"""Kernel level: the real wave_eval_cpu on complete configuration domains and seeded random configurations.

(M)  design run of WaveEval.tla (the model satisfies the verdict formulas for every configuration in its bounds);
(T)  the REAL kernel is run on the complete configuration domain of a bounded config and on random configurations
     (all 33 look-up tables, 1..4 inputs, monotone and non-monotone input waveforms, four independent delay entries,
     capacities 4/8/16); its outputs are judged by KernelT.tla (verdicts) and compared with the model (DRIFT).
"""
import itertools

import numpy as np

from .core import MachineryError
from . import gen

INF = 1000000
CAPI = 8


def enc(x, TMAX, TMIN):
    x = float(x)
    if x >= TMAX:
        return INF if x == TMAX else INF + 1
    if x <= TMIN:
        return -INF
    return int(x) if x == int(x) else int(round(x * 1024)) + 7 * INF     # off-grid marker: never equals a grid value


def run_kernel(lut, wins, dls, cap, fn=None, unit=1.0):
    """wins: list of images (grid ints); dls: per input [[d00,d01],[d10,d11]].  One call of the real kernel.
    unit: a power of two; input times and delays are multiplied by it, output times divided by it (both exact)."""
    from kyupy import wave_sim
    from kyupy.wave_sim import TMAX, TMIN, TMAX_OVL
    fn = fn or wave_sim.wave_eval_cpu
    dec = {INF: TMAX, INF + 1: TMAX_OVL, -INF: TMIN}
    c = np.full((5 * CAPI + cap + 4, 1), TMAX, dtype=np.float32)
    c_locs = np.array([i * CAPI for i in range(4)] + [4 * CAPI, 5 * CAPI + cap], dtype=np.int32)   # slot 5: constant-0 operand
    c_caps = np.array([CAPI] * 4 + [cap, 4], dtype=np.int32)
    c[4 * CAPI:4 * CAPI + cap, 0] = -12345.0      # garbage in the output area
    for i, im in enumerate(wins):
        for k, v in enumerate(im):
            c[i * CAPI + k, 0] = dec[v] if v in dec else np.float32(v * unit)
    delays = np.zeros((1, 6, 2, 2), dtype=np.float32)
    for i, d in enumerate(dls):
        delays[0, i] = np.array(d, dtype=np.float32) * np.float32(unit)
    idx = [i if i < len(wins) else 5 for i in range(4)]
    op = np.array([lut, 4] + idx + [-1, 0, 0], dtype=np.int32)
    rec = dict(lut=int(lut), win=[list(w) for w in wins], dl=[[[int(x) for x in r] for r in d] for d in dls], cap=int(cap), raised=False)
    try:
        nr, nf = fn(op, c, c_locs, c_caps, 0, delays, np.array([0, 0], dtype=np.int32), 0)
        out = c[4 * CAPI:4 * CAPI + cap, 0]
        z = []
        for v in out:
            z.append(enc(v if (v >= TMAX or v <= TMIN) else float(v) / unit, float(TMAX), float(TMIN)))
            if v >= TMAX:
                break
        rec.update(z=z, nr=int(nr), nf=int(nf))
    except Exception as e:
        rec.update(raised=True, z=[INF], nr=0, nf=0, err=repr(e)[:200])
    return rec


def prim_names():
    from kyupy import sim as ksim
    return {int(v): k.lower() for v, k in ksim.names.items()}


def incseqs(tg, mt):
    for n in range(mt + 1):
        for s in itertools.combinations(range(tg + 1), n):
            yield list(s)


def complete_domain(luts, tgrid, maxtr, dvals, cap, poldep):
    """The configuration domain of a WaveEval.tla config with NIN = 2 (mirrors its Init)."""
    ws = [([-INF] if ini else []) + s + [INF] for ini in (0, 1) for s in incseqs(tgrid, maxtr)]
    if poldep:
        dsets = [[[a, b], [c_, d]] for a in dvals for b in dvals for c_ in dvals for d in dvals]
    else:
        dsets = [[[d, d], [d, d]] for d in dvals]
    for lut in luts:
        for w0 in ws:
            for w1 in ws:
                for d0 in dsets:
                    for d1 in dsets:
                        yield lut, [w0, w1], [d0, d1], cap


def random_configs(rnd, n):
    names = prim_names()
    luts = sorted(names)
    for _ in range(n):
        lut = rnd.choice(luts)
        nin = max(gen.ARITY[names[lut].upper()], rnd.randint(1, 4))
        wins = []
        mono = rnd.random() < 0.7
        dense = rnd.choice([0, 0, 5, 7])      # half of the configurations crowd their edges near time 0
        for i in range(nin):
            k = rnd.randint(0, 5)
            tmax = dense if dense else 12
            ts = [rnd.randint(0, tmax) for _ in range(k)]
            if mono:
                ts = sorted(set(ts))
            wins.append(([-INF] if rnd.randint(0, 1) else []) + ts + [INF + 1 if rnd.random() < 0.12 else INF])    # some inputs carry an overflow marker
        poldep = rnd.random() < 0.6
        if poldep:
            dls = [[[rnd.randint(0, 4) for _ in range(2)] for _ in range(2)] for _ in range(nin)]
        else:
            dls = [[[d, d], [d, d]] for d in [rnd.randint(0, 4) for _ in range(nin)]]
        yield lut, wins, dls, rnd.choice([4, 4, 8, 16]), poldep


def with_motion(rnd, r, lut, wins, dls, cap, fixed=None):
    """C04: the same configuration shifted / scaled, through the real kernel again."""
    sd, sf = rnd.choice([1, 7, 64]), rnd.choice([2, 4])
    sden = rnd.choice([1, 1, 2 ** 10, 2 ** 20, 2 ** 30])       # scaling DOWN by a power of two: times in units of 1/sden
    if fixed:
        sd, sf, sden = fixed
    mv = lambda w, f: [f(v) if -INF < v < INF else v for v in w]
    zs = run_kernel(lut, [mv(w, lambda v: v + sd) for w in wins], dls, cap)
    zc = run_kernel(lut, [mv(w, lambda v: v * sf) for w in wins], [[[x * sf for x in row] for row in d] for d in dls], cap, unit=1.0 / sden)
    r.update(sd=sd, sf=sf, sden=sden, zs=[] if zs['raised'] else zs['z'], zc=[] if zc['raised'] else zc['z'])
    return r


def records(ck, rnd, motion=False):
    names = prim_names()
    recs = []
    # complete domain of the quick model config (polarity independent): 17 424 configurations
    for lut, wins, dls, cap in complete_domain([30583, 26214, 34952, 61166], 3, 2, [0, 1, 3], 4, False):
        r = run_kernel(lut, wins, dls, cap)
        r.update(prim=names.get(lut, '?'), poldep=False, sd=0, sf=1, sden=1, zs=[], zc=[])
        if motion:
            with_motion(rnd, r, lut, wins, dls, cap)
        recs.append(r)
    ncomplete = len(recs)
    if ck.thorough:
        for lut, wins, dls, cap in complete_domain([30583, 26214], 3, 2, [0, 2], 4, True):
            r = run_kernel(lut, wins, dls, cap)
            r.update(prim=names.get(lut, '?'), poldep=True, sd=0, sf=1, sden=1, zs=[], zc=[])
            recs.append(r)
        ncomplete = len(recs)
    for lut, wins, dls, cap, poldep in random_configs(rnd, ck.pick(9000, 90000)):
        r = run_kernel(lut, wins, dls, cap)
        r.update(prim=names.get(lut, '?'), poldep=poldep, sd=0, sf=1, sden=1, zs=[], zc=[])
        if motion:
            with_motion(rnd, r, lut, wins, dls, cap)
        recs.append(r)
    return recs, ncomplete


def judge(ck, recs, pids):
    r = ck.tlc_batch('KernelT', 'KernelT', traces=recs, label='T:KernelT', per_shard=1500, timeout=1700)
    ck.require_clean(r)
    ck.traces += len(recs)
    ck.evaluations += len(recs)
    for pid, tid, _, clause in r.fails:
        if pid not in pids:
            continue
        x = recs[tid - 1]
        ck.violation('kernel:%s:%s' % (clause, gen.digest([x['lut'], x['win'], x['dl'], x['cap']])),
                     'kernel %s fails: lut=%d (%s) inputs=%s delays=%s cap=%d -> z=%s %s' % (clause, x['lut'], x['prim'], x['win'], x['dl'], x['cap'], x['z'], x.get('err', '')),
                     dict(kind='kernel', input=dict(kernel=True, lut=x['lut'], win=x['win'], dl=x['dl'], cap=x['cap'], prim=x['prim'], poldep=x['poldep'], motion=[x['sd'], x['sf'], x['sden']]), clause=clause))


def run(ck, rnd, pids, design=True):
    if design:
        for cfg in ck.pick(['MC_WaveEval_q'], ['MC_WaveEval_q', 'MC_WaveEval_a']):
            r = ck.tlc('WaveEval', cfg, label='M:' + cfg, cont=False, timeout=3000)
            ck.require_clean(r, allow_violation=False)
            if r.rc != 0:
                raise MachineryError('design run %s: the kernel MODEL violates %s - specification bug' % (cfg, r.invariant_violations))
            ck.log('kernel model', cfg, r.distinct, 'distinct states', '%.1fs' % r.wall)
    recs, ncomplete = records(ck, rnd, motion=('C04' in pids))
    ck.count('kernel-configs-complete-domain', ncomplete)
    ck.count('kernel-configs-random', len(recs) - ncomplete)
    ck.count('kernel-overflows', sum(1 for x in recs if x['z'] and x['z'][-1] == INF + 1))
    ck.count('kernel-marked-inputs', sum(1 for x in recs if any(w[-1] == INF + 1 for w in x['win'])))
    judge(ck, recs, pids)
    # conformance of the real kernel with the model (DRIFT only)
    ok = [x for x in recs if not x['raised']]
    r2 = ck.tlc_batch('WaveEvalTrace', 'WaveEvalTrace', traces=ok, label='T:WaveEvalTrace', per_shard=1500, timeout=1700)
    if r2.crashed():
        ck.drift('WaveEval.tla could not follow a recorded configuration: %s' % r2.crashed()[:2])
    for d in r2.drifts[:20]:
        x = ok[d[1] - 1]
        ck.drift('kernel output differs from WaveEval.tla for lut=%d inputs=%s delays=%s cap=%d: real z=%s' % (x['lut'], x['win'], x['dl'], x['cap'], x['z']))
    ck.count('model-followed-overflow', sum(1 for i in r2.infos if i[0] == 'tag'))
    ck.sample(dict(kernel_config=dict(lut=recs[-1]['lut'], inputs=recs[-1]['win'], delays=recs[-1]['dl'], cap=recs[-1]['cap']), produced=recs[-1]['z']))
    ck.need_cover(['kernel-configs-complete-domain', 'kernel-configs-random', 'kernel-overflows', 'kernel-marked-inputs'])
    return recs


def replay(ck, mt):
    r = run_kernel(mt['lut'], mt['win'], mt['dl'], mt['cap'])
    r.update(prim=mt['prim'], poldep=mt['poldep'], sd=0, sf=1, sden=1, zs=[], zc=[])
    with_motion(__import__('random').Random(1), r, mt['lut'], mt['win'], mt['dl'], mt['cap'], fixed=mt.get('motion') if mt.get('motion', [0])[0] else None)
    judge(ck, [r], ('C03', 'C04', 'C05', 'C13'))
