"""C17 - Graph traversals and name lookups are complete and correctly ordered.

(T) sequences yielded by the real topological_order, topological_order_with_level, topological_line_order,
    reversed_topological_order and fanin(origins) on random circuits (both styles, open pins, nodes with all pins
    open, dangling logic, flip-flops and latches as cut points) are validated position by position by Traverse.tla,
    whose abstract specification admits every valid order; io_locs / s_locs on structurally generated names
    (bracket / underscore / direct index styles, gaps, two dimensions, prefix collisions) are compared with Locs.tla.
"""
import random

from .core import Check, MachineryError, import_kyupy
from . import gen, nets
from .project import project

PID = 'C17'


def mutate(rnd, c):
    """Leave pins unconnected / create nodes with all pins open (still acyclic, still single-driver forks)."""
    from kyupy.circuit import Node
    for _ in range(rnd.randint(0, 3)):
        cand = [l for l in c.lines if l.reader.kind != '__fork__' and l.driver.kind == '__fork__']
        if not cand:
            break
        rnd.choice(cand).remove()
    if rnd.random() < 0.4:
        Node(c, 'lonely', rnd.choice(['AND2', '__fork__', 'dff']))
    return c


def rewire_same_size(rnd, c):
    """Move the reader end of one gate-input line to another source (same object, same node and line counts, still
    acyclic because the new source is an input/state-element signal)."""
    from kyupy.circuit import Line
    cand = [l for l in c.lines if l.reader.kind not in ('__fork__', 'output') and nets.seq_flag(l.reader.kind) == 0 and l.driver.kind == '__fork__']
    srcs = [f for f in c.forks.values() if len(f.ins) > 0 and f.ins[0] is not None and (f.ins[0].driver.kind == 'input' or nets.seq_flag(f.ins[0].driver.kind))]
    srcs += [f for f in c.io_nodes if f.kind == '__fork__' and len(f.ins) == 0]
    if not cand or not srcs:
        return None
    l = rnd.choice(cand)
    rdr, pin = l.reader, l.reader_pin
    src = rnd.choice(srcs)
    if src is l.driver:
        return None
    c._edit = [int(l.index), int(src.index)]
    l.remove()
    Line(c, src, (rdr, pin))
    return c


def redo_edit(c, edit):
    """Replay of a rewiring: line edit[0] is removed and its reader pin connected to node edit[1] (same object, same counts)."""
    from kyupy.circuit import Line
    l = c.lines[edit[0]]
    rdr, pin = l.reader, l.reader_pin
    l.remove()
    Line(c, c.nodes[edit[1]], (rdr, pin))
    return c


def rewire_against_order(rnd, c):
    """Same sizes again, but the new driver is a signal that came LATER than the reader in the order yielded so far and
    does not depend on it: the previous order is no longer a valid order of the rewired graph."""
    from kyupy.circuit import Line
    order = [n for n in c.topological_order()]
    pos = {n.index: k for k, n in enumerate(order)}
    if len(pos) != len(c.nodes):
        return None
    cand = [l for l in c.lines if l.reader.kind not in ('__fork__', 'output') and nets.seq_flag(l.reader.kind) == 0 and l.driver.kind == '__fork__']
    rnd.shuffle(cand)
    for l in cand:
        a = l.reader
        seen, stack = {a.index}, [a]
        while stack:                    # everything that depends on a
            n = stack.pop()
            for o in n.outs:
                if o is not None and o.reader.index not in seen:
                    seen.add(o.reader.index)
                    stack.append(o.reader)
        late = [f for f in c.nodes if f.kind == '__fork__' and f.index not in seen and pos[f.index] > pos[a.index] and f is not l.driver
                and len(f.ins) > 0 and f.ins[0] is not None]
        if late:
            f = rnd.choice(late)
            pin = l.reader_pin
            c._edit = [int(l.index), int(f.index)]
            l.remove()
            Line(c, f, (a, pin))
            return c
    return None


def traversal_record(rnd, c, nfan=3):
    st = project(c)
    st['seq'] = [nets.seq_flag(nd['kind']) for nd in st['nodes']]
    del st['snodes']
    rec = dict(st=st, topo=[], lvl=[], lines=[], rev=[], fan=[], raised=False)
    try:
        rec['topo'] = [int(n.index) for n in c.topological_order()]
        wl = [(int(n.index), int(l)) for n, l in c.topological_order_with_level()]
        rec['lvl'] = [l for _, l in wl]
        if [n for n, _ in wl] != rec['topo']:
            rec['lvl'] = []     # misaligned with topological_order: reported by LevelsAligned
        rec['lines'] = [int(l.index) for l in c.topological_line_order()]
        rec['rev'] = [int(n.index) for n in c.reversed_topological_order()]
        for _ in range(nfan):
            k = rnd.randint(1, 3)
            orig = rnd.sample(list(c.nodes), min(k, len(c.nodes)))
            rec['fan'].append(dict(orig=[int(n.index) for n in orig], got=[int(n.index) for n in c.fanin(orig)]))
        # two cones iterated in lock-step (both generators alive at once): each must still be the cone of its own origins
        o1, o2 = [rnd.sample(list(c.nodes), min(rnd.randint(1, 2), len(c.nodes))) for _ in range(2)]
        g1, g2 = c.fanin(o1), c.fanin(o2)
        r1, r2 = [], []
        while True:
            a, b = next(g1, None), next(g2, None)
            if a is None and b is None:
                break
            if a is not None: r1.append(int(a.index))
            if b is not None: r2.append(int(b.index))
        rec['fan'].append(dict(orig=[int(n.index) for n in o1], got=r1))
        rec['fan'].append(dict(orig=[int(n.index) for n in o2], got=r2))
    except Exception as e:
        rec['raised'] = True
        rec['err'] = repr(e)[:200]
    return rec


STYLES = ['br', 'us', 'usbr', 'brbr', 'direct', 'directbr']


def render(base, ix, style):
    if not ix:
        return base
    if style == 'br':
        return base + ''.join('[%d]' % i for i in ix)
    if style == 'us':
        return base + ''.join('_%d' % i for i in ix)
    if style == 'usbr':
        return base + '_%d_' % ix[0] + ''.join('[%d]' % i for i in ix[1:])
    if style == 'brbr':
        return base + ''.join('[%d]' % i for i in ix)
    if style == 'direct':
        return base + '_'.join(str(i) for i in ix)
    return base + str(ix[0]) + ''.join('[%d]' % i for i in ix[1:])


def tojson(x):
    """Token sequence: -2 '[', -3 ']', -1 None, n >= 0 a position (any returned shape is representable)."""
    if x is None:
        return [-1]
    if isinstance(x, (list, tuple)):
        out = [-2]
        for y in x:
            out += tojson(y)
        return out + [-3]
    try:
        return [int(x)]
    except Exception:
        return [-4]


def locs_records(rnd, n):
    from kyupy.circuit import Circuit, Node
    recs = []
    bases = ['a', 'ab', 'abc', 'd', 'data', 'q', 'x', 'A', 'Q', 'dout']
    for t in range(n):
        c = Circuit('names')
        entries = []
        used = set()
        for base in rnd.sample(bases, rnd.randint(1, 5)):
            depth = rnd.choice([0, 1, 1, 1, 2])
            style = rnd.choice(STYLES)
            if depth == 0:
                items = [[]]
            elif depth == 1:
                items = [[i] for i in rnd.sample(range(0, 40), rnd.randint(1, 6))]       # gaps, any order, numeric not lexicographic
            else:
                items = [[i, j] for i in rnd.sample(range(0, 12), rnd.randint(1, 3)) for j in rnd.sample(range(0, 12), rnd.randint(1, 3))]
            rnd.shuffle(items)
            for ix in items:
                nm = render(base, ix, style)
                if nm in used:
                    continue
                used.add(nm)
                entries.append((base, ix, nm))
        rnd.shuffle(entries)
        nio = rnd.randint(0, len(entries))
        info = []
        for k, (base, ix, nm) in enumerate(entries):
            if k < nio:
                node = Node(c, nm, rnd.choice(['input', 'output']))
                c.io_nodes.append(node)
            else:
                node = Node(c, nm, 'LATCH' if (k % 3 == 1 and rnd.random() < 0.7) else 'DFF')
            info.append((base, ix, nm, k < nio, node.kind))
        allb = sorted({e[0] for e in info})
        prefixes = rnd.sample(['a', 'ab', 'd', 'data', 'q', 'x', 'zz', 'A', 'do', ''], 4)
        plan = [(which, prefix, 0) for which in ('io', 's') for prefix in prefixes]
        if nio >= 2 and rnd.random() < 0.5:
            # history: the same prefixes are looked up again after two ports have changed places (same counts), and after
            # the caller has modified a list that an earlier lookup returned
            plan += [('swap', None, 0)] + [(which, prefix, 1) for which in ('io', 's') for prefix in rnd.sample(prefixes, 2)]
        for which, prefix, again in plan:
            if which == 'swap':
                a, b = rnd.sample(range(nio), 2)
                c.io_nodes[a], c.io_nodes[b] = c.io_nodes[b], c.io_nodes[a]
                pos = [k for k, e in enumerate(info) if e[3]]
                info[pos[a]], info[pos[b]] = info[pos[b]], info[pos[a]]
                continue
            if True:
                # positions: io_locs indexes io_nodes, s_locs indexes s_nodes = ports, then flip-flops in node order
                if which == 'io':
                    seqn = [e for e in info if e[3]]
                else:
                    # s_nodes: ports, then ALL flip-flops, then ALL latches (each in node order)
                    seqn = [e for e in info if e[3]] + [e for e in info if not e[3] and e[4] == 'DFF'] + [e for e in info if not e[3] and e[4] == 'LATCH']
                rec = dict(names=[dict(m=e[0].startswith(prefix), b=allb.index(e[0]), ix=list(e[1])) for e in seqn], raised=False,
                           what='%s_locs(%r) over %s%s' % (which, prefix, [e[2] for e in seqn], ' (again, after a port swap)' if again else ''))
                try:
                    got = c.io_locs(prefix) if which == 'io' else c.s_locs(prefix)
                    rec['got'] = tojson(got)
                    if isinstance(got, list):
                        got.append(12345)          # the caller owns the returned list
                        got.reverse()
                except Exception as e:
                    rec['raised'] = True
                    rec['got'] = [-1]
                    rec['err'] = repr(e)[:200]
                recs.append(rec)
    return recs


def main(tier=None, replay=None):
    ck = Check(PID, tier)
    import_kyupy()
    rnd = random.Random(ck.seed + 17)
    recs, inputs = [], []
    hist = {}        # record number -> how the object got into its state (traversed before, then rewired)
    if replay:
        import json
        ck.is_replay = True
        case = json.load(open(replay))['case']
        if case['kind'] == 'traverse':
            if case.get('history'):
                # the object was traversed once, then rewired (same numbers of nodes and lines), then traversed again
                c = gen.circuit_from_state(case['history']['before'])
                traversal_record(rnd, c)
                c = redo_edit(c, case['history']['edit'])
            else:
                c = gen.circuit_from_state(case['circuit'])
            recs, inputs = [traversal_record(rnd, c, nfan=40)], [case['circuit']]
            r = ck.tlc_batch('Traverse', 'Traverse', traces=recs, label='T:Traverse')
            ck.require_clean(r)
            for pid, tid, l, clause in r.fails:
                ck.violation('%s:%s' % (clause, gen.digest(inputs[0])), '%s fails at position %d' % (clause, l), case)
            return ck.finish('replay')
    # (M) the concrete Kahn algorithm refines the abstract order specification on ALL small graphs; the variant that
    # counts unconnected pins (the code before fix 6e566da) must be refuted - sensitivity guard of the model
    for cfg in ck.pick(['MC_TraverseM'], ['MC_TraverseM', 'MC_TraverseM_b']):
        m = ck.tlc('TraverseM', cfg, label='M:' + cfg, cont=False, timeout=3000)
        ck.require_clean(m, allow_violation=False)
        if m.rc != 0:
            raise MachineryError('TraverseM: the concrete traversal model does not refine the abstract specification: %s' % m.invariant_violations)
    m = ck.tlc('TraverseM', 'MC_TraverseM_old', label='M:MC_TraverseM_old', cont=False)
    if 'Refines' not in m.invariant_violations:
        raise MachineryError('TraverseM: counting unconnected pins was not refuted - the model is insensitive')
    ck.count('model-refutes-open-pin-counting')
    for t in range(ck.pick(300, 3000)):
        c = gen.gen_circuit(rnd, max_gates=ck.pick(10, 20), max_ff=3)
        if rnd.random() < 0.5:
            mutate(rnd, c)
        elif rnd.random() < 0.3:
            # history: the circuit was transformed before it is traversed (named 1:1 forks spliced out, indices reassigned)
            from .c09 import elim_ready
            if elim_ready(c):
                before = gen.circuit_state(c)
                try:
                    c.eliminate_1to1_forks()
                except Exception as e:      # reported through NoException on the circuit as it was before
                    c0 = gen.circuit_from_state(before)
                    r0 = traversal_record(rnd, c0)
                    r0.update(raised=True, err='eliminate_1to1_forks() before the traversal raised ' + repr(e)[:150])
                    inputs.append(before)
                    recs.append(r0)
                    continue
        inputs.append(gen.circuit_state(c))
        recs.append(traversal_record(rnd, c))
        if rnd.random() < 0.35:
            # history: the SAME object traversed again after a rewiring that keeps the numbers of nodes and lines
            c2 = rewire_against_order(rnd, c) if rnd.random() < 0.6 else rewire_same_size(rnd, c)
            if c2 is not None:
                ck.count('rewired-same-size')
                hist[len(recs)] = dict(before=inputs[-1], edit=c2._edit)
                inputs.append(gen.circuit_state(c2))
                recs.append(traversal_record(rnd, c2))
    # scale: a fork with more than 256 branches (visit counters and positions beyond 8 bits)
    for t in range(ck.pick(1, 3)):
        c = gen.layered_circuit(rnd, 3, 2, fanout_hub=rnd.randint(257, 300))
        inputs.append(gen.circuit_state(c))
        recs.append(traversal_record(rnd, c))
        ck.count('circuits-with-fanout-over-256')
    r = ck.tlc_batch('Traverse', 'Traverse', traces=recs, label='T:Traverse', per_shard=60, timeout=1700)
    ck.require_clean(r)
    ck.traces += len(recs)
    ck.evaluations += r.distinct
    for pid, tid, l, clause in r.fails:
        ck.violation('%s:%s' % (clause, gen.digest(inputs[tid - 1])), '%s fails at position %d of the sequence yielded for circuit %s %s' % (
            clause, l, gen.digest(inputs[tid - 1]), recs[tid - 1].get('err', '')), dict(kind='traverse', circuit=inputs[tid - 1], clause=clause, position=l, history=hist.get(tid - 1)))
    lrecs = locs_records(rnd, ck.pick(250, 2500))
    r2 = ck.tlc_batch('Locs', 'Locs', traces=lrecs, label='T:Locs', per_shard=150)
    ck.require_clean(r2)
    ck.traces += len(lrecs)
    ck.evaluations += len(lrecs)
    for pid, tid, _, clause in r2.fails:
        x = lrecs[tid - 1]
        ck.violation('%s:%s' % (clause, gen.digest(x['what'])), '%s fails: %s returned %s %s' % (clause, x['what'], x['got'], x.get('err', '')),
                     dict(kind='locs', what=x['what'], got=x['got']))
    for x, inp in zip(recs, inputs):
        ck.nontrivial.add(gen.digest(inp))
        if any(-1 in nd['ins'] for nd in x['st']['nodes']):
            ck.count('circuits-with-open-pins')
        if any(x['st']['seq']):
            ck.count('circuits-with-state')
    for x in lrecs:
        if 'again' in x['what']:
            ck.count('locs-again-after-swap')
        g = x['got']
        ck.count('locs-none' if g == [-1] else 'locs-single' if len(g) == 1 else 'locs-nested' if g[:2] == [-2, -2] else 'locs-bus')
    ck.need_cover(['rewired-same-size', 'circuits-with-fanout-over-256', 'locs-again-after-swap', 'circuits-with-open-pins', 'circuits-with-state', 'locs-nested', 'locs-bus', 'locs-none', 'locs-single'])
    ck.sample(dict(topological_order=recs[0]['topo'][:12], levels=recs[0]['lvl'][:12], fanin=recs[0]['fan'][:1]))
    ck.sample(dict(lookup=lrecs[0]['what'], returned=lrecs[0]['got']))
    ck.assumptions += ['circuits are acyclic once cut at state elements; forks have one driver', 'fan-in: a non-origin state element feeding the cone may or may not be yielded (DESIGN §5.2)',
                       'prefixes are plain identifiers; all names of one base have the same number of indices', 'TLC, JSON reader, harness projection']
    return ck.finish('seeded random circuits (both styles, <=20 gates, <=3 state elements, removed lines, isolated nodes) x random origin sets; '
                     'circuits with a 257..300-branch fork, re-traversal after size-preserving rewiring; name sets over 10 bases x 6 index styles x depths 0..2 with gaps x 10 prefixes, lookups repeated after a port swap; distinct by circuit digest')
