"""C13 - Capture results and switching-activity counts faithfully summarise waveforms.

(T) implementation against its own waveforms, judged by TLC (WaveSimT.tla): s[3..7], s[10] = what the output's waveform
    encodes (initial value, earliest/latest finite time, parity, parity of the entries before T, overflow marker);
    an output whose overflow indicator is clear has exactly the waveform of the same case re-run with capacity 64;
    abuf[a, lane] = weighted count of rising/falling transitions of the produced waveforms of the lines mapped to a.
    CPU and mock-GPU capture, random a_ctrl tables (shared accumulators, -1, weights -3..3), capture times on and
    between grid points.  Kernel level: returned switching counts = transitions of the produced waveform.
"""
import random

import numpy as np

from .core import Check, import_kyupy
from . import gen, wrec, kernel, wsim

PID = 'C13'


def build(mt):
    from kyupy import wave_sim
    c = gen.circuit_from_state(mt['circuit'])
    d = np.array(mt['delays'], dtype=np.float32)
    rec = wrec.base_record(PID, c, mt['lanes'], d, True, mt['inw'])
    rec['has'].update(c13=True, big=True, abuf=mt['actrl'] is not None)
    rec['T2'] = mt['T2']
    rec['strip'] = bool(mt.get('strip', False))
    cls = getattr(wave_sim, mt['cls'])
    a = np.array(mt['actrl'], dtype=np.int32) if mt['actrl'] is not None else None
    try:
        enc = wrec.Enc()
        T = mt['T2'] / 2.0 if mt['T2'] < 2 * wrec.INF else None
        w = wrec.run_wave(cls, c, d, mt['lanes'], mt['caps'], mt['inw'], actrl=a, T=T, warmup=mt.get('warm'), strip=mt.get('strip', False), reuse=mt.get('reuse', False))
        rec.update(wrec.observe(w, c, mt['lanes'], enc, lines=not mt.get('reuse', False)))      # (with memory reuse only the ports are observable)
        big = wrec.run_wave(cls, c, d, mt['lanes'], 64, mt['inw'], T=T, strip=mt.get('strip', False))
        rec['big'] = dict(port=wrec.observe(big, c, mt['lanes'], enc, lines=False)['port'])
        if a is not None:
            rec['actrl'] = [[int(v) for v in a[x]] for x in range(len(c.lines))]
            ab = np.array(w.abuf)
            # (when no evaluated line names an accumulator, abuf_len is 0 and abuf is a 1x1 placeholder: no accumulators)
            rec['abuf'] = [[int(ab[k, p]) for p in range(mt['lanes'])] for k in range(ab.shape[0])] if int(w.abuf_len) > 0 else []
    except Exception as e:
        rec['raised'] = True
        rec['err'] = repr(e)[:300]
    return rec


def make(ck, rnd, n):
    recs, metas = [], []
    for t in range(n):
        xorish = rnd.random() < 0.4
        parity = rnd.random() < 0.3
        if parity:
            c = gen.parity_circuit(rnd)
        else:
            c = gen.gen_circuit(rnd, max_gates=ck.pick(8, 14), max_ff=2, kinds=['XOR2', 'XNOR2', 'XOR3', 'XOR4', 'BUF1', 'INV1'] if xorish else None)
        lanes = rnd.choice([1, 2, 4])
        d = gen.rand_delays(rnd, c, vals=(0, 1) if parity else (0, 1, 2, 3, 5))
        strip = rnd.random() < 0.3
        reuse = (not parity) and rnd.random() < 0.15
        if reuse:
            strip = rnd.random() < 0.7
            c = gen.gen_circuit(rnd, max_gates=ck.pick(16, 20), max_ff=2)
            d = gen.rand_delays(rnd, c, vals=(0, 1, 2, 3, 5))
        if strip:
            for f in c.forks.values():
                for l in f.ins:
                    if l is not None:
                        d[:, l.index] = 0
        T2 = rnd.choice([2 * wrec.INF, 2 * rnd.randint(0, 20), 2 * rnd.randint(0, 20) + 1, 2 * rnd.randint(0, 12)])
        actrl = wsim.rand_actrl(rnd, c).tolist() if rnd.random() < 0.7 else None
        percap = [rnd.choice([4, 8, 16]) for _ in range(len(c.lines) + 3)]
        if rnd.random() < 0.4:      # small capacities exactly on the lines whose INDEX is a port / state-element position
            percap = [4 if x < len(c.s_nodes) else 16 for x in range(len(c.lines) + 3)]
        mt = dict(reuse=reuse, strip=strip, circuit=gen.circuit_state(c), lanes=lanes, delays=d.tolist(), caps=rnd.choice([4, 4, 8, percap]), inw=wrec.rand_inputs(rnd, c, lanes, multi=True, tmax=40 if parity else 12, tmin=rnd.choice([0, 0, -15, -40])),      # times before 0 are times like any other
                  cls=rnd.choice(['WaveSim', 'WaveSimCuda']), T2=T2, actrl=actrl, warm=wrec.rand_inputs(rnd, c, lanes, multi=True, tmax=12) if rnd.random() < 0.4 else None)
        mt['desc'] = '%s caps=%s strip=%s T=%s actrl=%s' % (mt['cls'], mt['caps'] if isinstance(mt['caps'], int) else 'per-line', strip, 'TMAX' if T2 >= 2 * wrec.INF else T2 / 2, actrl is not None)
        recs.append(build(mt))
        metas.append(mt)
    return recs, metas


def main(tier=None, replay=None):
    ck = Check(PID, tier)
    import_kyupy()
    rnd = random.Random(ck.seed + 13)
    if replay:
        import json
        ck.is_replay = True
        mt = json.load(open(replay))['case']['input']
        if 'kernel' in mt:
            kernel.replay(ck, mt)
        else:
            wrec.judge(ck, [build(mt)], [mt], (PID,))
        return ck.finish('replay')
    kernel.run(ck, rnd, (PID,), design=True)
    recs, metas = make(ck, rnd, ck.pick(280, 1600))
    wrec.judge(ck, recs, metas, (PID,))
    ck.count('overflowed-ports', sum(1 for x in recs for row in x['s'] for v in row if v[5]))
    ck.count('clear-ports', sum(1 for x in recs for row in x['s'] for v in row if not v[5]))
    ck.count('records-abuf', sum(1 for m in metas if m['actrl'] is not None))
    ck.count('records-finite-capture-time', sum(1 for m in metas if m['T2'] < 2 * wrec.INF))
    ck.count('records-cuda', sum(1 for m in metas if m['cls'] == 'WaveSimCuda'))
    ck.need_cover(['overflowed-ports', 'clear-ports', 'records-abuf', 'records-finite-capture-time', 'records-cuda'])
    for m in metas:
        ck.nontrivial.add(gen.digest(m['circuit']) + gen.digest(m['inw']) + str(m['T2']))
    ck.sample(dict(port_waveform=recs[0]['port'][-1], captured=recs[0]['s'][-1], twice_capture_time=recs[0]['T2'], abuf=recs[0]['abuf']))
    ck.assumptions += ['capture with sd = 0 (no sampling uncertainty)', 'capacity 64 stands for unlimited capacity; the check verifies that no marker appears in that run',
                       'GPU capture = kernel run through MockCuda', 'TLC, JSON reader, harness projection']
    return ck.finish('seeded random circuits (incl. parity-heavy) x delays x multi-transition inputs x capacities {4,8} vs 64 x capture times on/between grid '
                     'points and TMAX x random accumulation-control tables x {WaveSim, WaveSimCuda}; distinct by (circuit, inputs, capture time)')
