"""C04 - Transitions stay inside the static-timing window and move rigidly with inputs.

(T) circuit level: for random circuits, non-negative grid delays (polarity dependent and independent), multi-transition
    inputs: every line waveform and s[4]/s[5] inside the STA window the SPEC computes from structure, delays and
    the actual input transition times; the same case re-run with all input times shifted by d and with all times and
    delays scaled by 2^k must give exactly shifted / scaled waveforms; strictly increasing timestamps under
    polarity-independent delays (WaveSimT.tla).  Kernel level: Window, EdgeIsInputPlusDelay, Monotone (KernelT.tla)
    on the complete domain of the bounded kernel model and random configurations; (M) design run of WaveEval.tla.
"""
import random

import numpy as np

from .core import Check, import_kyupy
from . import gen, wrec, kernel

PID = 'C04'


def shift_img(im, d):
    return [v + d if -wrec.INF < v < wrec.INF else v for v in im]


def scale_img(im, f):
    return [v * f if -wrec.INF < v < wrec.INF else v for v in im]


def build(mt):
    from kyupy import wave_sim
    c = gen.circuit_from_state(mt['circuit'])
    d = np.array(mt['delays'], dtype=np.float32)
    rec = wrec.base_record(PID, c, mt['lanes'], d, mt['poldep'], mt['inw'])
    rec['has'].update(c04=True, shift=True, scale=True)
    cls = getattr(wave_sim, mt['cls'])
    try:
        enc = wrec.Enc()
        lines = not mt['reuse']
        # history: stimulus through s[0..2] + s_to_c() on a simulator whose input slots held hand-written waveforms before
        hist = dict(via_s=True, warmup=mt['warm']) if mt.get('via_s') else {}
        w = wrec.run_wave(cls, c, d, mt['lanes'], mt['caps'], mt['inw'], reuse=mt['reuse'], strip=mt['strip'], **hist)
        rec.update(wrec.observe(w, c, mt['lanes'], enc, lines=lines))
        sh = [[shift_img(im, mt['shift']) for im in row] for row in mt['inw']]
        w2 = wrec.run_wave(cls, c, d, mt['lanes'], mt['caps'], sh, reuse=mt['reuse'], strip=mt['strip'], **hist)
        o2 = wrec.observe(w2, c, mt['lanes'], enc, lines=lines)
        rec['sh'] = dict(d=mt['shift'], waves=o2['waves'], port=o2['port'])
        sc = [[scale_img(im, mt['scale']) for im in row] for row in mt['inw']]
        # the scaled run may in addition be scaled DOWN by a power of two (units of 1/sden, exact in floating point)
        sden = mt.get('sden', 1)
        sc = [[[v / sden if -wrec.INF < v < wrec.INF else v for v in im] for im in row] for row in sc]
        w3 = wrec.run_wave(cls, c, d * np.float32(mt['scale'] / sden), mt['lanes'], mt['caps'], sc, reuse=mt['reuse'], strip=mt['strip'], **hist)
        enc3 = wrec.Enc(mul=float(sden))
        o3 = wrec.observe(w3, c, mt['lanes'], enc3, lines=lines)
        rec['sc'] = dict(f=mt['scale'], den=sden, waves=o3['waves'], port=o3['port'])
        rec['offgrid'] = enc.offgrid or enc3.offgrid
    except Exception as e:
        rec['raised'] = True
        rec['err'] = repr(e)[:300]
    return rec


def make(ck, rnd, n):
    recs, metas = [], []
    for t in range(n):
        xorish = rnd.random() < 0.3
        reuse = rnd.random() < 0.25
        strip = rnd.random() < (0.7 if reuse else 0.3)
        # with memory reuse only ports are observable: deeper circuits, so that released memory is handed out again
        c = gen.gen_circuit(rnd, max_gates=ck.pick(16 if reuse else 8, 20 if reuse else 14), max_ff=2, kinds=['XOR2', 'XNOR2', 'XOR3', 'AND2', 'OR2', 'BUF1'] if xorish else None)
        lanes = rnd.choice([1, 2, 3])
        poldep = rnd.random() < 0.5
        d = gen.rand_delays(rnd, c, vals=(0, 1, 2, 3, 5, 8), poldep=poldep)
        if strip:
            for f in c.forks.values():
                for l in f.ins:
                    if l is not None:
                        d[:, l.index] = 0
        via_s = rnd.random() < 0.25
        mt = dict(circuit=gen.circuit_state(c), lanes=lanes, delays=d.tolist(), poldep=poldep, caps=rnd.choice([8, 16, 16]),
                  inw=wrec.rand_inputs(rnd, c, lanes, multi=not via_s, tmax=12), via_s=via_s, warm=wrec.rand_inputs(rnd, c, lanes, multi=True, tmax=12) if via_s else None,
                  cls=rnd.choice(['WaveSim', 'WaveSimCuda']),
                  reuse=reuse, strip=strip, shift=rnd.choice([1, 16, 100, 1000, -7, -100]), scale=rnd.choice([2, 4, 8]), sden=rnd.choice([1, 1, 2 ** 10, 2 ** 20, 2 ** 24]))
        mt['desc'] = '%s poldep=%s reuse=%s strip=%s shift=%d scale=%d/%d' % (mt['cls'], poldep, reuse, strip, mt['shift'], mt['scale'], mt['sden'])
        recs.append(build(mt))
        metas.append(mt)
    return recs, metas


def main(tier=None, replay=None):
    ck = Check(PID, tier)
    import_kyupy()
    rnd = random.Random(ck.seed + 4)
    if replay:
        import json
        ck.is_replay = True
        mt = json.load(open(replay))['case']['input']
        if 'kernel' in mt:
            kernel.replay(ck, mt)
        else:
            wrec.judge(ck, [build(mt)], [mt], (PID,))
        return ck.finish('replay')
    kernel.run(ck, rnd, (PID,))
    recs, metas = make(ck, rnd, ck.pick(200, 1300))
    wrec.judge(ck, recs, metas, (PID,))
    ck.count('records-poldep', sum(1 for m in metas if m['poldep']))
    ck.count('records-polindep', sum(1 for m in metas if not m['poldep']))
    ck.count('finite-times', sum(1 for r in recs for x in r['waves'] for im in x for v in im if -wrec.INF < v < wrec.INF))
    ck.need_cover(['records-poldep', 'records-polindep', 'finite-times'])
    for m in metas:
        ck.nontrivial.add(gen.digest(m['circuit']) + gen.digest(m['inw']))
    ck.sample(dict(inputs=metas[0]['inw'][0], shift=metas[0]['shift'], scale=metas[0]['scale'], line0=recs[0]['waves'][0] if recs[0]['waves'] else None,
                   line0_shifted=recs[0]['sh']['waves'][0] if recs[0]['sh']['waves'] else None))
    ck.assumptions += ['times on an integer grid, |t| < 2^20 so float32 shifts and scalings are exact; every observed time is verified to be a grid point (OnGrid)',
                       'zero delay on fork inputs when forks are stripped', 'TLC, JSON reader, harness projection and time encoding']
    return ck.finish('kernel: complete domain of the bounded model + random configurations; circuits: seeded random circuits x delay arrays x multi-transition inputs '
                     'x {WaveSim, WaveSimCuda} x option variants, each with a shifted and a scaled re-run; distinct by (circuit, inputs)')
