"""Abstract flat gate-level modules (with buses, assigns, constants), their ground-truth circuit, and renderers to
Verilog and ISCAS-bench text.  The renderers are trusted harness code (DESIGN §7): the specification decides the
MEANING of the abstract module; style variables only choose among equivalent spellings."""
import random


def bits_of(port):
    d, base, rng = port
    if rng is None:
        return [base]
    l, r = rng
    step = 1 if l <= r else -1
    return ['%s[%d]' % (base, i) for i in range(l, r + step, step)]


def random_hdl_module(rnd, tlib, kinds, name='top', max_inst=4):
    """ports: [(dir, base, range|None)], insts: [(kind, iname, {pin: sig|'1'b0'|'1'b1'})], assigns: [(lhs bit, rhs bit|const)].
    Every signal bit has exactly one driver.  Output port bits are driven by assigns from internal signals/constants
    or directly by instance outputs."""
    ports = []
    nin = rnd.randint(1, 3)
    for i in range(nin):
        if rnd.random() < 0.4:
            w = rnd.randint(1, 3)
            rng = rnd.choice([(w - 1, 0), (w - 1, 0), (0, w - 1), (w + 1, 2), (9 + w, 10), (10, 9 + w), (8 + w, 9), (9, 8 + w), (2, 1 + w)])     # bounds with different digit counts too
            if rng[0] == rng[1]:
                rng = (rng[0], rng[0])
            ports.append(('input', 'in%d' % i, rng))
        else:
            ports.append(('input', rnd.choice(['a', 'b', 'c', 'sel', 'x_y'])[:3] + str(i), None))
    sigs = [b for p in ports for b in bits_of(p)]
    insts, wires = [], []
    esc = rnd.random() < 0.3
    for k in range(rnd.randint(1, max_inst)):
        kind = rnd.choice(kinds)
        pins = tlib.cells[kind][1]
        ins = sorted([p for p, (i, o) in pins.items() if not o], key=lambda p: pins[p][0])
        outs = sorted([p for p, (i, o) in pins.items() if o], key=lambda p: pins[p][0])
        pm = {}
        for p in ins:
            r = rnd.random()
            if r < 0.08:
                continue                       # left unconnected
            pm[p] = rnd.choice(["1'b0", "1'b1"]) if r < 0.18 else rnd.choice(sigs)
        keep = [p for p in outs if rnd.random() >= 0.25] or ([rnd.choice(outs)] if outs and rnd.random() < 0.7 else [])    # sometimes no output at all is used
        for p in keep:
            w = ('n%d.%s' % (k, p.lower())) if esc and rnd.random() < 0.5 else 'n%d_%s' % (k, p.lower())
            pm[p] = w
            wires.append(w)
            sigs.append(w)
        iname = ('u%d$x' % k) if esc and rnd.random() < 0.5 else 'u%d' % k
        insts.append((kind, iname, pm))
    driven = [s for s in sigs if s.startswith('n')]
    outp, assigns = [], []
    for i in range(rnd.randint(1, 2)):
        tied = False
        if rnd.random() < 0.4:
            tied = rnd.random() < 0.35          # a status / version bus tied off mostly to constants
            w = rnd.randint(3, 6) if tied else rnd.randint(2, 3)
            rng = (w - 1, 0) if rnd.random() < 0.6 else (0, w - 1)
            port = ('output', 'out%d' % i, rng)
        else:
            port = ('output', 'z%d' % i, None)
        outp.append(port)
        for b in bits_of(port):
            r = rnd.random()
            src = rnd.choice(["1'b0", "1'b1"]) if r < (0.75 if tied else 0.15) else rnd.choice(driven or sigs) if r < 0.85 else rnd.choice(sigs)
            assigns.append((b, src))
    return dict(name=name, ports=ports + outp, insts=insts, wires=wires, assigns=assigns)


MULTI = {'NANGATE': ['HA_X1', 'FA_X1', 'DFF_X1'], 'NANGATE_ZN': ['HA_X1', 'FA_X1'], 'SAED32': ['FADDX1_RVT', 'HADDX1_RVT', 'DFFX1_RVT', 'DEC24X1_RVT'],
         'SAED90': ['HADDX1', 'FADDX1', 'DFFX1'], 'GSC180': ['ADDFX1', 'ADDHX1', 'DFFX1']}
SINK = {'NANGATE': 'INV_X1', 'NANGATE_ZN': 'INV_X1', 'SAED32': 'INVX1_RVT', 'SAED90': 'INVX0', 'GSC180': 'INVX1'}


def pruning_module(rnd, lname, tlib):
    """A multi-output cell one of whose outputs feeds only an instance with no used output (dead logic that resolving
    prunes away) while another output is used; the text may instantiate the dead reader first."""
    kind = rnd.choice(MULTI[lname])
    pins = tlib.cells[kind][1]
    ins = sorted([p for p, (i, o) in pins.items() if not o], key=lambda p: pins[p][0])
    outs = sorted([p for p, (i, o) in pins.items() if o], key=lambda p: pins[p][0])
    ports = [('input', 'a%d' % i, None) for i in range(len(ins))]
    pm = {p: 'a%d' % i for i, p in enumerate(ins)}
    wires = []
    for p in outs:
        pm[p] = 'w_' + p.lower()
        wires.append(pm[p])
    dead = 0 if rnd.random() < 0.6 else rnd.randrange(len(outs))     # (pruning looks at output pins from pin 0 up)
    sink = SINK[lname]
    spins = tlib.cells[sink][1]
    sin = [p for p, (i, o) in spins.items() if not o][0]
    insts = [(kind, 'u_m', pm), (sink, 'u_dead', {sin: pm[outs[dead]]})]
    if rnd.random() < 0.6:
        insts.reverse()             # the dead reader is instantiated (and so resolved and pruned) before the cell it hangs on
    used = [o for k, o in enumerate(outs) if k != dead]
    outp = [('output', 'z%d' % k, None) for k in range(len(used))]
    assigns = [('z%d' % k, pm[o]) for k, o in enumerate(used)]
    return dict(name='top', ports=ports + outp, insts=insts, wires=wires, assigns=assigns)


def build(mod, tlib, branchforks=False, order=None):
    """Ground truth: the circuit this module denotes, built through the Circuit API: per port bit a port node in
    declaration order, per signal bit a named fork, instances with pins at their library positions."""
    from kyupy.circuit import Circuit, Node, Line
    c = Circuit(mod['name'])
    nconst = [0]
    for p in mod['ports']:
        for b in bits_of(p):
            node = Node(c, b, p[0])
            c.io_nodes.append(node)
            if p[0] == 'input':
                Line(c, node, Node(c, b))

    def const(v):
        n = Node(c, '__k%d_%d__' % (v, nconst[0]), '__const%d__' % v)
        nconst[0] += 1
        f = Node(c, n.name)
        Line(c, n, f)
        return f
    insts = list(mod['insts'])
    if order is not None:      # state elements are ordered like their instantiations in the text
        insts.sort(key=lambda x: order.index(x[1]))
    for kind, iname, pm in insts:
        node = Node(c, iname, kind)
        for p, s in pm.items():
            if tlib.pin_is_output(kind, p):
                Line(c, (node, tlib.pin_index(kind, p)), c.get_or_add_fork(s))
    for tgt, src in mod['assigns']:
        f = const(int(src[-1])) if src.startswith("1'b") else c.get_or_add_fork(src)
        Line(c, f, c.get_or_add_fork(tgt))
    for kind, iname, pm in mod['insts']:
        node = c.cells[iname]
        for p, s in pm.items():
            if not tlib.pin_is_output(kind, p):
                f = const(int(s[-1])) if s.startswith("1'b") else c.get_or_add_fork(s)
                if branchforks:
                    b = Node(c, f.name + '~' + iname + '/' + p)
                    Line(c, f, b)
                    f = b
                Line(c, f, (node, tlib.pin_index(kind, p)))
    for p in mod['ports']:
        if p[0] == 'output':
            for b in bits_of(p):
                if b in c.forks:
                    Line(c, c.forks[b], c.cells[b])
    return c


def _ident(rnd, s, allow_escape=True):
    simple = all(ch.isalnum() or ch == '_' for ch in s) and not s[0].isdigit()
    if simple and not (allow_escape and rnd.random() < 0.1):
        return s
    return '\\' + s + rnd.choice([' ', ' ', '\t', '\n', '\r\n'])       # an escaped identifier ends at any white space


def _sig(rnd, s):
    """A bit signal in an expression: name or name[idx]; internal names with odd characters are escaped."""
    if s.startswith("1'b"):
        v = int(s[-1])
        if rnd.random() < 0.1:
            return rnd.choice(["1'd%d" % (v + 2 * rnd.randint(1, 4)), "1'h%x" % (v + 2 * rnd.randint(1, 7)), "1'b1%d" % v])     # oversized: only the low bit counts
        return rnd.choice(["1'b%d" % v, "1'B%d" % v, "1'h%d" % v, "1'd%d" % v])
    if '[' in s and s.endswith(']') and all(ch.isalnum() or ch == '_' for ch in s.split('[')[0]):
        return s
    return _ident(rnd, s)


def render_verilog(mod, rnd):
    """One of many equivalent renderings; style choices come from rnd (recorded seed)."""
    ws = lambda: rnd.choice([' ', '  ', '\n  ', '\t', ' /* c */ ', ' // line comment\n  ', ' /** doc **/ ', ' /***/ ', ' /* a * b */ ', ' /**/ '])
    out = []
    if rnd.random() < 0.3:
        out.append('// generated netlist\n/* block\n comment */\n')
    if rnd.random() < 0.3:
        out.append('(* top = 1 *)\n')
    hdr = [p[1] for p in mod['ports']]
    out.append('module %s (%s);\n' % (mod['name'], (',' + ws()).join(hdr)))
    decl = []
    style = rnd.choice(['split', 'merged'])
    scal = {}
    for d, base, rng in mod['ports']:
        if rng is None and style == 'merged':
            scal.setdefault(d, []).append(base)
        else:
            r = '' if rng is None else '[%d:%d] ' % rng
            decl.append('%s %s%s;' % (d, r, base))
    for d, names in scal.items():
        decl.append('%s %s;' % (d, (',' + ws()).join(names)))
    if rnd.random() < 0.2:
        # Verilog-1995 style: a port is declared again as a net (before or after its direction declaration)
        for d, base, rng in mod['ports']:
            if rnd.random() < 0.6:
                decl.insert(rnd.randint(0, len(decl)), 'wire %s%s;' % ('' if rng is None else '[%d:%d] ' % rng, base))
    wnames = [w for w in mod['wires']]
    rnd.shuffle(wnames)
    if wnames and rnd.random() < 0.8:
        if rnd.random() < 0.5:
            decl.append('wire %s;' % ', '.join(_ident(rnd, w) for w in wnames))
        else:
            decl += ['wire %s;' % _ident(rnd, w) for w in wnames]
    stm = []
    tag = {}
    for kind, iname, pm in mod['insts']:
        items = list(pm.items())
        rnd.shuffle(items)
        conns = ['.%s(%s)' % (p, _sig(rnd, s)) for p, s in items]
        if rnd.random() < 0.15:
            conns.append('.%s()' % 'UNUSED' if False else conns.pop()) if False else None
        attr = rnd.choice(['(* keep *) ', '(* keep **) ', '(* a = "x", b *) ', '(**) ']) if rnd.random() < 0.12 else ''
        stm.append('%s%s %s (%s);' % (attr, kind, _ident(rnd, iname), (',' + ws()).join(conns)))
        tag[stm[-1]] = iname
    # assigns: bit by bit, or grouped per output bus as a concatenation / sized constant
    byport = {}
    for tgt, src in mod['assigns']:
        byport.setdefault(tgt.split('[')[0], []).append((tgt, src))
    for d, base, rng in mod['ports']:
        if d != 'output':
            continue
        prs = byport.get(base, [])
        if rng is not None and len(prs) > 1 and rnd.random() < 0.6:
            if all(s.startswith("1'b") for _, s in prs) and rnd.random() < 0.7:
                val = int(''.join(s[-1] for _, s in prs), 2)
                n = len(prs)
                if rnd.random() < 0.25:
                    val += rnd.randint(1, 3) << n       # a value wider than the stated size: the surplus high bits are truncated
                lit = rnd.choice(["%d'b%s" % (n, format(val, '0%db' % n)), "%d'd%d" % (n, val), "%d'h%x" % (n, val)])
                stm.append('assign %s = %s;' % (base, lit))
            else:
                # runs of constant bits inside the concatenation may be written as one sized constant (MSB first)
                items, k = [], 0
                while k < len(prs):
                    j = k
                    while j < len(prs) and prs[j][1].startswith("1'b"):
                        j += 1
                    if j - k >= 2 and rnd.random() < 0.6:
                        n = j - k
                        val = int(''.join(s[-1] for _, s in prs[k:j]), 2)
                        items.append(rnd.choice(["%d'b%s" % (n, format(val, '0%db' % n)), "%d'd%d" % (n, val), "%d'h%x" % (n, val)]))
                        k = j
                    else:
                        items.append(_sig(rnd, prs[k][1]))
                        k += 1
                stm.append('assign %s = {%s};' % (base, (',' + ws()).join(items)))
        else:
            for tgt, src in prs:
                stm.append('assign %s = %s;' % (tgt, _sig(rnd, src)))
    if rnd.random() < 0.5:
        rnd.shuffle(stm)
    body = decl + stm
    if rnd.random() < 0.3:      # declarations may come after their use in a netlist
        rnd.shuffle(body)
    for line in body:
        out.append(rnd.choice(['  ', '', '\t']) + line + rnd.choice(['\n', '\n\n', ' // c\n']))
    out.append('endmodule\n')
    mod['_order'] = [tag[l] for l in body if l in tag]
    return ''.join(out)


BENCH_KIND = {'AND2_X1': 'AND', 'AND3_X1': 'AND', 'NAND2_X1': 'NAND', 'OR2_X1': 'OR', 'NOR2_X1': 'NOR', 'NOR3_X1': 'NOR', 'XOR2_X1': 'XOR',
              'XNOR2_X1': 'XNOR', 'INV_X1': 'NOT', 'BUF_X1': 'BUF'}


def random_bench_module(rnd, tlib):
    """A module both formats can express: scalar names, single-output cells, no constants, outputs driven directly."""
    kinds = list(BENCH_KIND)
    nin = rnd.randint(1, 4)
    ports = [('input', 'i%d' % k, None) for k in range(nin)]
    sigs = [p[1] for p in ports]
    insts = []
    for k in range(rnd.randint(1, 6)):
        kind = rnd.choice(kinds)
        pins = tlib.cells[kind][1]
        ins = sorted([p for p, (i, o) in pins.items() if not o], key=lambda p: pins[p][0])
        out = [p for p, (i, o) in pins.items() if o][0]
        w = 'g%d' % k
        pm = {p: rnd.choice(sigs) for p in ins}
        pm[out] = w
        insts.append((kind, 'u_' + w, pm))       # (bench names the gate after its output signal; Verilog needs a distinct instance name)
        sigs.append(w)
    gs = [s for s in sigs if s.startswith('g')]
    outs = rnd.sample(gs, min(len(gs), rnd.randint(1, 2)))
    allp = ports + [('output', o, None) for o in outs]
    if rnd.random() < 0.4:
        rnd.shuffle(allp)            # ports are declared in any order (an output before a later input)
    return dict(name='top', ports=allp, insts=insts, wires=[g for g in gs if g not in outs], assigns=[])


def render_bench(mod, rnd, tlib):
    lines = []
    if rnd.random() < 0.5:
        lines.append('# generated')
    ins = [p[1] for p in mod['ports'] if p[0] == 'input']
    outs = [p[1] for p in mod['ports'] if p[0] == 'output']
    kw = rnd.choice([('INPUT', 'OUTPUT'), ('input', 'output')])
    if [p[0] for p in mod['ports']] != ['input'] * len(ins) + ['output'] * len(outs):
        lines += ['%s(%s)' % (kw[0] if p[0] == 'input' else kw[1], p[1]) for p in mod['ports']]        # interleaved: the port order is the declaration order
    else:
        lines += ['%s(%s)' % (kw[0], i) for i in ins] if rnd.random() < 0.5 else ['%s(%s)' % (kw[0], ', '.join(ins))]
        lines += ['%s(%s)' % (kw[1], o) for o in outs]
    gl = []
    for kind, iname, pm in mod['insts']:
        pins = tlib.cells[kind][1]
        ins_p = sorted([p for p, (i, o) in pins.items() if not o], key=lambda p: pins[p][0])
        out = [p for p, (i, o) in pins.items() if o][0]
        k = BENCH_KIND[kind]
        gl.append('%s = %s(%s)' % (pm[out], rnd.choice([k, k.lower()]), ', '.join(pm[p] for p in ins_p)))
    if rnd.random() < 0.5:
        rnd.shuffle(gl)
    return '\n'.join(lines + gl) + '\n'
