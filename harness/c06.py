"""C06 - Results do not depend on performance options, lane position or code path.

(T) implementation against implementation, judged by TLC (OptsT.tla): per circuit and stimulus one reference run and
    variant runs - {WaveSim, WaveSimCuda} x {c_reuse} x {strip_forks} (zero delay on fork inputs) x more allocated
    lanes x permuted lanes x c_prop(sims=k) (lanes >= k untouched) x delay dataset selected globally (mode 0) or per
    lane (mode 1) against the run with that dataset alone; LogicSim (m = 2, 4, 8) across options and batch sizes.
    Results are compared per lane as digests of the raw bytes; the signal memory where layouts coincide.
"""
import random

import numpy as np

from .core import Check, import_kyupy
from . import gen, wrec, wsim, lsim

PID = 'C06'


def lane_digs(w, lanes):
    s = np.array(w.s)
    return [wsim.dig(np.concatenate([s[3:8, :, p].ravel(), s[10, :, p].ravel()])) for p in range(lanes)]


def wave_case(mt):
    from kyupy import wave_sim
    from kyupy.wave_sim import WaveSim, WaveSimCuda
    c = gen.circuit_from_state(mt['circuit'])
    D = np.array(mt['delays'], dtype=np.float32)          # (datasets, lines, 2, 2)
    lanes, inw, caps = mt['lanes'], mt['inw'], mt['caps']
    T = mt['T']
    rec = dict(ref=[], refc='', runs=[], raised=False)
    ds0 = mt['ds'][0]

    def run(cls, d, n, images, reuse=False, strip=False, mode=None, sel=None, seed=0, prop=None, twice=False, first=None):
        w = cls(c, d, sims=n, c_caps=caps, c_reuse=reuse, strip_forks=strip)
        if isinstance(mode, list):          # the selection mode is a per-lane setting
            sc = np.array(w.simctl_int)
            sc[1, :len(mode)] = mode
            w.simctl_int[...] = sc
        else:
            w.simctl_int[1] = 0 if mode is None else mode
        if sel is not None:
            sc = np.array(w.simctl_int)
            sc[0, :len(sel)] = sel
            w.simctl_int[...] = sc
        s = np.array(w.s)
        for i in range(len(c.s_nodes)):
            for p in range(n):
                im = images[i][p]
                ts = [v for v in im if -wrec.INF < v < wrec.INF]
                s[0, i, p], s[1, i, p], s[2, i, p] = (1 if im[0] == -wrec.INF else 0), (ts[0] if ts else 0), (len(im) - 1) % 2
        w.s[...] = s
        w.s_to_c()
        pre = np.array(w.c).copy()
        if first is not None:               # history: the first propagation on this object was restricted to a few lanes
            w.c_prop(sims=first, seed=seed)
        if prop is None:
            w.c_prop(seed=seed)
        else:
            w.c_prop(sims=prop, seed=seed)
        if twice:                           # propagate the same assignment once more, without a new s_to_c()
            w.c_prop(seed=seed)
        post = np.array(w.c).copy()
        if T is None:
            w.c_to_s()
        else:
            w.c_to_s(time=float(T))
        return w, pre, post

    try:
        ref, _, post = run(WaveSim, D[ds0:ds0 + 1], lanes, inw)
        rec['ref'] = lane_digs(ref, lanes)
        rec['refc'] = wsim.dig(post)
    except Exception as e:
        rec['raised'] = True
        rec['err'] = repr(e)[:300]
        rec['runs'] = [dict(name='none', map=[], lanes=[], ccmp=False, c='', keep=[], raised=False)]
        return rec
    ident = list(range(1, lanes + 1))

    def add(name, fn, mp, ccmp=False, keepk=None):
        r = dict(name=name, map=mp, lanes=[], ccmp=ccmp, c='', keep=[], raised=False)
        try:
            w, pre, post = fn()
            n = len(mp)
            r['lanes'] = lane_digs(w, n)
            r['c'] = wsim.dig(post)
            if keepk is not None:
                r['keep'] = [keepk + 1, [wsim.dig(pre[:, p]) for p in range(pre.shape[1])], [wsim.dig(post[:, p]) for p in range(post.shape[1])]]
        except Exception as e:
            r['raised'] = True
            r['err'] = repr(e)[:300]
        rec['runs'].append(r)
    d0 = D[ds0:ds0 + 1]
    for cls in (WaveSim, WaveSimCuda):
        for reuse in (False, True):
            for strip in (False, True):
                if cls is WaveSim and not reuse and not strip:
                    continue
                add('%s reuse=%s strip=%s' % (cls.__name__, reuse, strip), lambda cls=cls, reuse=reuse, strip=strip: run(cls, d0, lanes, inw, reuse, strip),
                    ident, ccmp=(not reuse and not strip))
    # a second clock cycle: captured state transferred to the state elements' outputs (s_ppo_to_ppi), propagated again;
    # the transferred assignment s[0..2] is part of the compared result
    def run2(cls, reuse, strip):
        w, pre, _ = run(cls, d0, lanes, inw, reuse, strip)
        w.s_ppo_to_ppi(time=1.0)
        w.s_to_c()
        w.c_prop(seed=0)
        post = np.array(w.c).copy()
        w.c_to_s() if T is None else w.c_to_s(time=float(T))
        return w, pre, post

    def digs2(w, n):
        sv = np.array(w.s)
        return [wsim.dig(np.concatenate([sv[0:8, :, p].ravel(), sv[10, :, p].ravel()])) for p in range(n)]
    try:
        ref2, _, _ = run2(WaveSim, False, False)
        base2 = len(rec['ref'])
        rec['ref'] = rec['ref'] + digs2(ref2, lanes)
        for cls, reuse, strip in ((WaveSimCuda, False, False), (WaveSimCuda, True, True), (WaveSim, True, False)):
            r = dict(name='two cycles %s reuse=%s strip=%s' % (cls.__name__, reuse, strip), map=[base2 + p + 1 for p in range(lanes)], lanes=[], ccmp=False, c='', keep=[], raised=False)
            try:
                w2, _, _ = run2(cls, reuse, strip)
                r['lanes'] = digs2(w2, lanes)
            except Exception as e:
                r['raised'] = True
                r['err'] = repr(e)[:300]
            rec['runs'].append(r)
    except Exception as e:
        rec['runs'].append(dict(name='two cycles WaveSim (reference)', map=[], lanes=[], ccmp=False, c='', keep=[], raised=True, err=repr(e)[:300]))
    for reuse, strip in ((True, False), (True, True)):
        add('c_prop() twice %s reuse=%s strip=%s' % (mt['cls2'].__name__, reuse, strip), lambda reuse=reuse, strip=strip: run(mt['cls2'], d0, lanes, inw, reuse, strip, twice=True), ident)
    extra = mt['extra']
    wide = [row + [row[p % lanes] for p in range(extra)] for row in inw]
    add('allocated %d more lanes' % extra, lambda: run(mt['cls2'], d0, lanes + extra, wide), ident + [(p % lanes) + 1 for p in range(extra)])
    # scale: batches beyond one / two / three thread blocks of the (mock) GPU launcher, always on the GPU-kernel path
    big = mt.get('big', 0)
    if big:
        wide2 = [row + [row[p % lanes] for p in range(big)] for row in inw]
        add('WaveSimCuda with %d lanes' % (lanes + big), lambda: run(WaveSimCuda, d0, lanes + big, wide2), ident + [(p % lanes) + 1 for p in range(big)])
        add('WaveSimCuda with %d lanes, c_prop(sims=%d) first' % (lanes + big, mt['k']), lambda: run(WaveSimCuda, d0, lanes + big, wide2, first=mt['k']), ident + [(p % lanes) + 1 for p in range(big)])
    perm = mt['perm']
    pin = [[row[perm[p]] for p in range(lanes)] for row in inw]
    add('lanes permuted %s' % perm, lambda: run(mt['cls2'], d0, lanes, pin), [perm[p] + 1 for p in range(lanes)])
    k = mt['k']
    add('c_prop(sims=%d)' % k, lambda: run(mt['cls2'], d0, lanes, inw, prop=k), [p + 1 if p < k else 0 for p in range(lanes)], keepk=k)
    add('c_prop(sims=%d) then c_prop()' % k, lambda: run(mt['cls2'], d0, lanes, inw, first=k), ident)
    # delay dataset selection: mode 0 (seed selects for all lanes), mode 1 (per lane)
    add('mode 0 seed=%d of %d datasets' % (ds0, len(D)), lambda: run(mt['cls2'], D, lanes, inw, mode=0, seed=ds0), ident)
    if all(x == ds0 for x in mt['ds']):
        add('mode 1 all lanes dataset %d' % ds0, lambda: run(mt['cls2'], D, lanes, inw, mode=1, sel=[ds0] * lanes), ident)
    else:
        # per-lane selection: every lane equals the single-dataset run of ITS dataset -> one reference per dataset
        for dsx in sorted(set(mt['ds'])):
            try:
                refx, _, _ = run(WaveSim, D[dsx:dsx + 1], lanes, inw)
                digs = lane_digs(refx, lanes)
            except Exception:
                continue
            base = len(rec['ref'])
            rec['ref'] = rec['ref'] + digs
            add('mode 1 per-lane datasets %s (lanes using %d)' % (mt['ds'], dsx),
                lambda: run(mt['cls2'], D, lanes, inw, mode=1, sel=mt['ds']), [base + p + 1 if mt['ds'][p] == dsx else 0 for p in range(lanes)])
            if lanes >= 2:
                # mixed settings in one batch: lane 0 selects globally (seed = its dataset), the other lanes per lane
                add('lane 0 mode 0 (seed %d), other lanes mode 1 %s (lanes using %d)' % (mt['ds'][0], mt['ds'], dsx),
                    lambda: run(mt['cls2'], D, lanes, inw, mode=[0] + [1] * (lanes - 1), sel=mt['ds'], seed=mt['ds'][0]),
                    [base + p + 1 if mt['ds'][p] == dsx else 0 for p in range(lanes)])
    return rec


def logic_case(mt):
    c = gen.circuit_from_state(mt['circuit'])
    m, lanes, stim = mt['m'], mt['lanes'], mt['stim']
    rec = dict(ref=[], refc='', runs=[], raised=False)

    def digs(s, n):
        return [wsim.dig(np.array(lsim.codes(s, 1, n))[:, p]) for p in range(n)]
    try:
        ref = lsim.run_logic(c, m, lanes, stim)
        rec['ref'] = digs(ref, lanes)
    except Exception as e:
        rec['raised'] = True
        rec['err'] = repr(e)[:300]
        rec['runs'] = [dict(name='none', map=[], lanes=[], ccmp=False, c='', keep=[], raised=False)]
        return rec
    ident = list(range(1, lanes + 1))

    def add(name, fn, mp):
        r = dict(name=name, map=mp, lanes=[], ccmp=False, c='', keep=[], raised=False)
        try:
            s = fn()
            r['lanes'] = digs(s, len(mp))
        except Exception as e:
            r['raised'] = True
            r['err'] = repr(e)[:300]
        rec['runs'].append(r)
    for reuse in (False, True):
        for strip in (False, True):
            if reuse or strip:
                add('LogicSim m=%d reuse=%s strip=%s' % (m, reuse, strip), lambda reuse=reuse, strip=strip: lsim.run_logic(c, m, lanes, stim, reuse, strip), ident)
    extra = mt['extra']
    wide = [row + [row[p % lanes] for p in range(extra)] for row in stim]
    add('LogicSim %d more patterns' % extra, lambda: lsim.run_logic(c, m, lanes + extra, wide, mt['reuse'], mt['strip']), ident + [(p % lanes) + 1 for p in range(extra)])
    perm = mt['perm']
    add('LogicSim patterns permuted', lambda: lsim.run_logic(c, m, lanes, [[row[perm[p]] for p in range(lanes)] for row in stim], mt['reuse'], mt['strip']), [perm[p] + 1 for p in range(lanes)])
    if m == 2:
        add('LogicSim callback path', lambda: lsim.run_logic(c, m, lanes, stim, mt['reuse'], mt['strip'], (lambda l, v: None), True), ident)
    return rec


def make(ck, rnd, n):
    from kyupy.wave_sim import WaveSim, WaveSimCuda
    recs, metas = [], []
    for t in range(n):
        parity = rnd.random() < 0.25
        c = gen.parity_circuit(rnd, nin=rnd.randint(5, 7)) if parity else gen.gen_circuit(rnd, style=rnd.choice(['v', 'v', 'b']), max_gates=ck.pick(8, 14), max_ff=2)
        lanes = rnd.choice([2, 3, 4, 5])
        nds = rnd.choice([1, 2, 3])
        d = gen.rand_delays(rnd, c, datasets=nds, vals=(0, 1) if parity else (0, 1, 2, 3, 5), zero_fork_inputs=True)
        ds = [rnd.randrange(nds) for _ in range(lanes)]
        if rnd.random() < 0.4:
            ds = [ds[0]] * lanes
        perm = list(range(lanes))
        rnd.shuffle(perm)
        inw = [[wrec.stim_image(rnd.randint(0, 1), rnd.randint(0, 40 if parity else 12), rnd.randint(0, 1)) for _ in range(lanes)] for _ in c.s_nodes]
        mt = dict(kind='wave', circuit=gen.circuit_state(c), lanes=lanes, delays=d.tolist(), ds=ds, caps=4 if parity else rnd.choice([4, 8, 16]), inw=inw,
                  T=rnd.choice([None, rnd.randint(0, 20), rnd.randint(0, 20)]), extra=rnd.choice([1, 3, 30]), big=rnd.choice([0, 0, 20, 45, 60, 97]), perm=perm, k=rnd.randint(1, lanes - 1),
                  cls2=rnd.choice(['WaveSim', 'WaveSimCuda']))
        recs.append(build(mt))
        metas.append(mt)
        m = rnd.choice([2, 4, 8])
        ll = rnd.choice([3, 7, 8, 9])
        perm2 = list(range(ll))
        rnd.shuffle(perm2)
        mt2 = dict(kind='logic', circuit=gen.circuit_state(c), m=m, lanes=ll, stim=lsim.rand_stim(rnd, m, len(c.s_nodes), ll, families=False),
                   extra=rnd.choice([1, 8, 13]), perm=perm2, reuse=rnd.random() < 0.5, strip=rnd.random() < 0.5)
        recs.append(build(mt2))
        metas.append(mt2)
    return recs, metas


def build(mt):
    if mt['kind'] == 'logic':
        return logic_case(mt)
    from kyupy import wave_sim
    mt = dict(mt)
    mt['cls2'] = getattr(wave_sim, mt['cls2'])
    return wave_case(mt)


def judge(ck, recs, metas):
    r = ck.tlc_batch('OptsT', 'OptsT', traces=recs, label='T:OptsT', per_shard=60)
    ck.require_clean(r)
    ck.traces += sum(len(x['runs']) for x in recs)
    ck.evaluations += sum(len(x['runs']) for x in recs)
    for pid, tid, k, clause in r.fails:
        x, mt = recs[tid - 1], metas[tid - 1]
        run = x['runs'][k - 1]
        ck.violation('%s:%s:%s' % (clause, run['name'].split(' (')[0], gen.digest(mt)), '%s: variant run "%s" differs from the reference run %s %s' % (
            clause, run['name'], x.get('err', ''), run.get('err', '')), dict(kind='opts', input=mt, run=run['name'], clause=clause))


def main(tier=None, replay=None):
    ck = Check(PID, tier)
    import_kyupy()
    rnd = random.Random(ck.seed + 6)
    if replay:
        import json
        ck.is_replay = True
        mt = json.load(open(replay))['case']['input']
        judge(ck, [build(mt)], [mt])
        return ck.finish('replay')
    recs, metas = make(ck, rnd, ck.pick(120, 1200))
    judge(ck, recs, metas)
    for x in recs:
        for run in x['runs']:
            ck.count('variant:' + run['name'].split(' ')[0] + ('/' + run['name'].split(' ')[1] if run['name'].startswith(('mode', 'LogicSim')) else ''))
    ck.need_cover(['variant:WaveSimCuda', 'variant:WaveSim', 'variant:allocated', 'variant:lanes', 'variant:c_prop(sims=1)', 'variant:mode/0', 'variant:mode/1'])
    for m in metas:
        ck.nontrivial.add(gen.digest(m))
    ck.sample(dict(reference_lane_digests=recs[0]['ref'], variants=[(r['name'], r['lanes']) for r in recs[0]['runs'][:4]]))
    ck.assumptions += ['zero delay on fork inputs (strip_forks ignores them by design)', 'delay selection modes 0 and 1 (mode 2 is random by design); capture with sd = 0',
                       'GPU path = kernels run through MockCuda', 'TLC, JSON reader; digests of raw array bytes']
    return ck.finish('seeded random circuits (both styles) x stimuli x delay datasets: reference run vs variants over {WaveSim, WaveSimCuda} x {c_reuse} x '
                     '{strip_forks} x allocated lanes x lane permutations x c_prop(sims=k) x dataset selection modes 0/1 (also mixed per lane) x a second clock cycle x c_prop() twice x WaveSimCuda batches of up to ~100 lanes; LogicSim m=2/4/8 across options, '
                     'batch sizes, permutations and the callback path; distinct by case digest')
