"""Observation records of the real timing simulators for WaveSimT.tla (C03, C04, C05, C13)."""
import numpy as np

from . import lsim, gen

INF = 1000000


class Enc:
    """float32 times -> integer grid values; TMAX/TMAX_OVL/TMIN become symbolic."""

    def __init__(self, mul=1.0):
        from kyupy.wave_sim import TMAX, TMIN
        self.TMAX, self.TMIN = float(TMAX), float(TMIN)
        self.offgrid = False
        self.mul = mul          # times are reported in units of 1/mul (mul a power of two: exact)

    def __call__(self, t):
        t = float(t)
        if t >= self.TMAX:
            return INF if t == self.TMAX else INF + 1
        if t <= self.TMIN:
            return -INF
        t *= self.mul
        if t != int(t) or abs(t) >= 2 ** 20:
            self.offgrid = True
        return int(round(t))

    def image(self, col):
        out = []
        for t in col:
            v = self(t)
            out.append(v)
            if v >= INF:
                break
        return out


def rand_image(rnd, tmax=9, maxtr=3, tmin=0):
    init = rnd.randint(0, 1)
    n = rnd.randint(0, maxtr - init)
    ts = sorted(rnd.sample(range(tmin, tmax + 1), n))
    return ([-INF] if init else []) + ts + [INF]


def stim_image(i, t, f):
    if not i and not f:
        return [INF]
    if not i and f:
        return [t, INF]
    if i and not f:
        return [-INF, t, INF]
    return [-INF, INF]


def dec(v):
    from kyupy.wave_sim import TMAX, TMAX_OVL, TMIN
    return TMAX if v == INF else TMAX_OVL if v == INF + 1 else TMIN if v == -INF else np.float32(v)


def run_wave(cls, c, d, lanes, caps, inw, reuse=False, strip=False, actrl=None, T=None, via_s=False, sims_prop=None, warmup=None):
    """Build the simulator, assign the input images, propagate, capture.  inw[i][p]: image of s_node i (None if it
    drives nothing).  via_s: assign through s[0..2] + s_to_c (images must be stimulus images), else write the images
    into the input slots after s_to_c (multi-transition inputs)."""
    w = cls(c, d, sims=lanes, c_caps=caps, a_ctrl=actrl, c_reuse=reuse, strip_forks=strip)
    w.simctl_int[1] = 0
    if warmup is not None:
        # history: the SAME simulator object has already been used for another stimulus (assign, propagate, capture)
        # (hand-written multi-transition warm-up images go straight into the input slots even if the run proper uses s_to_c)
        assign(w, c, lanes, warmup, via_s and is_stim(warmup))
        w.c_prop(seed=0)
        w.c_to_s()
        if actrl is not None:
            w.abuf[...] = 0
    assign(w, c, lanes, inw, via_s)
    if sims_prop is None:
        w.c_prop(seed=0)
    else:
        w.c_prop(sims=sims_prop, seed=0)
    if T is None:
        w.c_to_s()
    else:
        w.c_to_s(time=float(T))
    return w


def assign(w, c, lanes, inw, via_s):
    s = np.array(w.s)
    snodes = c.s_nodes
    for i, n in enumerate(snodes):
        for p in range(lanes):
            im = inw[i][p]
            init = 1 if im[0] == -INF else 0
            fin = (len(im) - 1) % 2
            s[0, i, p], s[2, i, p] = init, fin
            ts = [v for v in im if -INF < v < INF]
            s[1, i, p] = ts[0] if ts else 0
    w.s[...] = s
    w.s_to_c()
    if not via_s:
        cc = np.array(w.c)
        locs = np.array(w.c_locs)
        for i, n in enumerate(snodes):
            loc = locs[w.ppi_offset + i]
            if loc < 0:
                continue
            for p in range(lanes):
                im = inw[i][p]
                for k, v in enumerate(im):
                    cc[loc + k, p] = dec(v)
        w.c[...] = cc


def observe(w, c, lanes, enc, lines=True):
    cc, locs, caps, s = np.array(w.c), np.array(w.c_locs), np.array(w.c_caps), np.array(w.s)
    nl = len(c.lines)
    waves = []
    if lines:
        for x in range(nl):
            waves.append([enc.image(cc[locs[x]:locs[x] + caps[x], p]) for p in range(lanes)])
    port, sv, pcaps = [], [], []
    for i, n in enumerate(c.s_nodes):
        loc, cap = locs[w.ppo_offset + i], caps[w.ppo_offset + i]
        pcaps.append(int(cap))
        if loc >= 0:
            port.append([enc.image(cc[loc:loc + cap, p]) for p in range(lanes)])
        else:
            port.append([[INF] for p in range(lanes)])
        sv.append([[int(s[3, i, p] != 0), enc(s[4, i, p]), enc(s[5, i, p]), int(s[6, i, p] != 0),
                    int(round(float(s[7, i, p]))), int(s[10, i, p] != 0)] for p in range(lanes)])
    return dict(waves=waves, port=port, s=sv, caps=[int(caps[x]) for x in range(nl)], pcaps=pcaps)


def base_record(pid, c, lanes, d, poldep, inw):
    st = lsim.struct(c)
    dl = [[[int(d[0, x, a, b]) for b in range(2)] for a in range(2)] for x in range(len(c.lines))]
    return dict(pid=pid, st=st, lanes=lanes, dl=dl, poldep=bool(poldep), inw=inw, waves=[], port=[], s=[], caps=[], pcaps=[], T2=2 * INF,
                has=dict(c03=False, c04=False, c05=False, c13=False, shift=False, scale=False, big=False, abuf=False),
                sh=dict(d=0, waves=[], port=[]), sc=dict(f=1, waves=[], port=[]), resp8=[], big=dict(port=[]),
                actrl=[], abuf=[], raised=False, offgrid=False, strip=False)


def rand_inputs(rnd, c, lanes, multi=True, tmax=9, tmin=0):
    inw = []
    for n in c.s_nodes:
        row = []
        for p in range(lanes):
            if multi and rnd.random() < 0.5:
                row.append(rand_image(rnd, tmax, tmin=tmin))
            else:
                row.append(stim_image(rnd.randint(0, 1), rnd.randint(tmin, tmax), rnd.randint(0, 1)))
        inw.append(row)
    return inw


def is_stim(inw):
    return all(len([v for v in im if -INF < v < INF]) <= 1 and (len([v for v in im if -INF < v < INF]) == 1) == ((im[0] == -INF) != ((len(im) - 1) % 2 == 1))
               for row in inw for im in row)


def judge(ck, recs, metas, pids, label='T:WaveSimT', per_shard=30):
    from .core import MachineryError
    r = ck.tlc_batch('WaveSimT', 'WaveSimT', traces=recs, label=label, per_shard=per_shard, timeout=1700)
    ck.require_clean(r)
    ck.traces += len(recs)
    ck.evaluations += sum(x['lanes'] for x in recs)
    mach = [f for f in r.fails if f[0] == 'MACHINERY']
    for pid, tid, p, clause in r.fails:
        if pid == 'MACHINERY' or pid not in pids:
            continue
        mt = metas[tid - 1]
        ck.violation('%s:%s' % (clause, gen.digest(mt)), '%s fails in lane %d (%s) %s' % (clause, p, mt.get('desc', ''), recs[tid - 1].get('err', '')),
                     dict(kind='wave', input=mt, clause=clause, lane=p))
    if mach and not ck.violations:
        raise MachineryError('record %d not sane for WaveSimT (%s)' % (mach[0][1], mach[0][3]))
    return r
