"""C03 - Timing simulation settles to the Boolean function for any delays/capacity.

(T) circuit level: every line's waveform (memory reuse off) and the captured initial/final values of the real WaveSim
    and WaveSimCuda - random circuits, four independent delay entries per line, uniform and per-line capacities small
    enough to overflow, multi-transition input waveforms written into the input slots, grid and off-grid (SDF-like)
    delays - judged by WaveSimT.Functional against Netlist.Eval of the inputs' initial and final values;
(M)+(T) kernel level: see WaveEval.tla (design run of the merge kernel model and conformance of the real kernel).
"""
import random

import numpy as np

from .core import Check, MachineryError, import_kyupy
from . import gen, wrec, kernel

PID = 'C03'


def make(ck, rnd, n, pid=PID):
    from kyupy.wave_sim import WaveSim, WaveSimCuda
    recs, metas = [], []
    for t in range(n):
        xorish = rnd.random() < 0.35       # parity logic lets every input transition through: long waveforms, overflows
        reuse = rnd.random() < 0.3
        strip = rnd.random() < (0.7 if reuse else 0.4)
        # with memory reuse only ports are observable: deeper circuits, so that released memory is actually handed out again
        c = gen.parity_circuit(rnd) if rnd.random() < 0.2 else gen.gen_circuit(rnd, max_gates=ck.pick(16 if reuse else 8, 20 if reuse else 14), max_ff=2, kinds=['XOR2', 'XNOR2', 'XOR3', 'XNOR3', 'XOR4', 'BUF1'] if xorish else None)
        nl = len(c.lines)
        cls = rnd.choice([WaveSim, WaveSimCuda])
        lanes = rnd.choice([1, 2, 3, 5])
        if cls is WaveSimCuda and rnd.random() < 0.1:
            lanes = rnd.choice([20, 40, 64])      # batches beyond one block of the (mock) GPU launcher
        offgrid = rnd.random() < 0.25
        if offgrid:       # SDF-like values, not on the grid: only counts and kinds of entries are meaningful
            d = np.array([[[[rnd.choice([0.0, 0.013, 0.37, 1.0, 2.61]) for _ in range(2)] for _ in range(2)] for _ in range(nl)]], dtype=np.float32)
        else:
            d = gen.rand_delays(rnd, c, vals=(0, 0, 1, 2, 3, 5))
        caps = rnd.choice([4, 4, 8, 16, [rnd.choice([4, 8, 16]) for _ in range(nl + 3)], [rnd.choice([4, 4, 12]) for _ in range(nl + 3)],
                           # small capacities exactly on the lines whose INDEX is a port / state-element position, large elsewhere
                           [4 if x < len(c.s_nodes) else 16 for x in range(nl + 3)]])
        via_s = rnd.random() < 0.3         # stimulus through s[0..2] + s_to_c() instead of waveforms written into the input slots
        inw = wrec.rand_inputs(rnd, c, lanes, multi=not via_s)
        if strip and not offgrid:
            for f in c.forks.values():
                for l in f.ins:
                    if l is not None:
                        d[:, l.index] = 0
        mt = dict(via_s=via_s, reuse=reuse, strip=strip, warm=wrec.rand_inputs(rnd, c, lanes, multi=True) if rnd.random() < 0.4 else None, circuit=gen.circuit_state(c), lanes=lanes, delays=d.tolist(), caps=caps, inw=inw, cls=cls.__name__, offgrid=offgrid,
                  desc='%s caps=%s offgrid=%s reuse=%s strip=%s' % (cls.__name__, caps if isinstance(caps, int) else 'per-line', offgrid, reuse, strip))
        recs.append(build(mt, pid))
        metas.append(mt)
    return recs, metas


def build(mt, pid=PID):
    from kyupy import wave_sim
    c = gen.circuit_from_state(mt['circuit'])
    d = np.array(mt['delays'], dtype=np.float32)
    rec = wrec.base_record(pid, c, mt['lanes'], np.zeros_like(d) if mt['offgrid'] else d, True, mt['inw'])
    rec['has']['c03'] = True
    try:
        w = wrec.run_wave(getattr(wave_sim, mt['cls']), c, d, mt['lanes'], mt['caps'], mt['inw'], reuse=mt.get('reuse', False), strip=mt.get('strip', False), warmup=mt.get('warm'), via_s=mt.get('via_s', False))
        enc = wrec.Enc()
        rec.update(wrec.observe(w, c, mt['lanes'], enc, lines=not mt.get('reuse', False)))
        if mt['offgrid']:
            rec['offgrid'] = False      # times are not claimed; Functional does not look at them
    except Exception as e:
        rec['raised'] = True
        rec['err'] = repr(e)[:300]
    return rec


def main(tier=None, replay=None):
    ck = Check(PID, tier)
    import_kyupy()
    rnd = random.Random(ck.seed + 3)
    if replay:
        import json
        ck.is_replay = True
        mt = json.load(open(replay))['case']['input']
        if 'kernel' in mt:
            kernel.replay(ck, mt)
        else:
            wrec.judge(ck, [build(mt)], [mt], (PID,))
        return ck.finish('replay')
    kernel.run(ck, rnd, (PID,))
    recs, metas = make(ck, rnd, ck.pick(260, 1500))
    wrec.judge(ck, recs, metas, (PID,))
    ovf = sum(1 for r in recs for x in r['waves'] for im in x if im and im[-1] == wrec.INF + 1)
    ck.count('overflowed-line-waveforms', ovf)
    ck.count('line-waveforms', sum(len(x) for r in recs for x in r['waves']))
    ck.count('records-offgrid-delays', sum(1 for m in metas if m['offgrid']))
    ck.count('records-cuda', sum(1 for m in metas if m['cls'] == 'WaveSimCuda'))
    ck.count('records-reuse', sum(1 for m in metas if m['reuse']))
    ck.count('records-strip', sum(1 for m in metas if m['strip']))
    ck.count('records-s_to_c-after-handwritten-warmup', sum(1 for m in metas if m['via_s'] and m['warm'] is not None))
    ck.need_cover(['records-s_to_c-after-handwritten-warmup', 'overflowed-line-waveforms', 'records-offgrid-delays', 'records-cuda', 'records-reuse', 'records-strip'])
    for m in metas:
        ck.nontrivial.add(gen.digest(m['circuit']) + gen.digest(m['inw']))
    ck.sample(dict(input_images=metas[0]['inw'][0], line0_waveforms=recs[0]['waves'][0] if recs[0]['waves'] else None, captured=recs[0]['s'][-1]))
    ck.assumptions += ['interface-cut convention; non-negative finite delays; capacities positive multiples of 4', 'input waveforms have at most 3 entries (input slot capacity 4)',
                       'GPU path = kernels run through MockCuda', 'TLC, JSON reader, harness projection and time encoding']
    return ck.finish('kernel: complete configuration domains of the bounded WaveEval model + seeded random kernel configurations; circuits: seeded random circuits '
                     'x delay arrays (grid and off-grid) x capacities {4,8,16,per-line} x multi-transition inputs x {WaveSim, WaveSimCuda}; distinct by (circuit, inputs)')
