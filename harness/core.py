"""Core of the verification harness: TLC runner, verdict bookkeeping, evidence, known findings.

Only *verdict formulas* evaluated by TLC (lines `<<"FAIL", ...>>` printed by a violated verdict
invariant, or a violated invariant of a published-data model run) can raise VIOLATION.
Conformance mismatches with the concrete models are reported as DRIFT only.
"""
import atexit
import json
import os
import re
import shutil
import subprocess
import sys
import tempfile
import time

VERIF = os.path.dirname(os.path.dirname(os.path.abspath(__file__)))
SPEC = os.path.join(VERIF, 'spec')
REPO = os.environ.get('KYUPY_REPO', '/repo')
OUT = os.environ.get('VERIF_OUT', VERIF)     # evidence/replays of mutation and matrix runs are diverted here
JAR = '/opt/veriftools/tla/tla2tools.jar:/opt/veriftools/tla/CommunityModules-deps.jar'
NCPU = os.cpu_count() or 4


def scrub_trace(t):
    """TLC's JSON reader accepts neither null nor fractions.  The harness never produces them in its own fields (open pins
    are -1, times are on an integer grid), so a null/fraction can only come out of the code under test where the record
    documents an integer or a string: that observation is outside the specification's observation type.  For records with
    a `raised` field it is reported through the NoException verdict (the spec's verdicts are guarded by ~raised); the value
    is replaced so that TLC can load the batch.  Other records are left alone (TLC then fails loudly: machinery)."""
    if not isinstance(t, dict) or 'raised' not in t:
        return t
    bad = []

    def walk(x, path):
        if x is None or (isinstance(x, float) and x != int(x) if isinstance(x, float) and x == x and abs(x) != float('inf') else isinstance(x, float)):
            bad.append(path)
            return 0
        if isinstance(x, float):
            return int(x)
        if isinstance(x, dict):
            return {k: walk(v, path + '.' + str(k)) for k, v in x.items()}
        if isinstance(x, (list, tuple)):
            return [walk(v, '%s[%d]' % (path, i)) for i, v in enumerate(x)]
        return x
    out = walk(t, '')
    if bad:
        out['raised'] = True
        out['err'] = ('observation outside the documented types (null or fraction) at %s; ' % bad[0]) + str(t.get('err', ''))
        t['raised'], t['err'] = True, out['err']          # the caller's record is used for the violation message
    return out


class CodeTimeout(Exception):
    """A single call into the code under test did not return (see install_watchdog)."""


_watch = dict(frame=None, n=0, fired=0)


def install_watchdog(tick=15.0, first=12, second=4):
    """Non-termination guard.  A periodic timer looks at the main thread's stack; when the SAME call from the harness
    into kyupy (identified by its outermost kyupy frame object, kept referenced so that it cannot be recycled) is still
    running after `first` ticks (180 s; 60 s for the second, 15 s for every later occurrence in one run) CodeTimeout is
    raised inside that call.  Drivers record it like any other exception of the code under test, and the NoException
    verdict reports it.  Calls made from worker threads and waiting for TLC are never interrupted."""
    import signal
    import threading
    if threading.current_thread() is not threading.main_thread() or _watch.get('installed'):
        return
    marker = os.sep + os.path.join('src', 'kyupy') + os.sep

    def handler(sig, frm):
        entry, f = None, frm
        while f is not None:
            if marker in f.f_code.co_filename:
                entry = f
            f = f.f_back
        if entry is None:
            _watch.update(frame=None, n=0)
            return
        if _watch['frame'] is entry:
            _watch['n'] += 1
        else:
            _watch.update(frame=entry, n=1)
        limit = first if _watch['fired'] == 0 else second if _watch['fired'] == 1 else 1
        if _watch['n'] >= limit:
            secs = int(_watch['n'] * tick)
            _watch.update(frame=None, n=0, fired=_watch['fired'] + 1)
            raise CodeTimeout('a call into kyupy (%s) did not return within %d s' % (entry.f_code.co_name, secs))
    signal.signal(signal.SIGALRM, handler)
    signal.setitimer(signal.ITIMER_REAL, tick, tick)
    _watch['installed'] = True


def stop_watchdog():
    """Disarm the timer before the interpreter shuts down (Python restores the default SIGALRM action while worker
    threads may still be finishing; a tick in that window would kill the process with status 142)."""
    import signal
    import threading
    if _watch.get('installed') and threading.current_thread() is threading.main_thread():
        signal.setitimer(signal.ITIMER_REAL, 0)
        signal.signal(signal.SIGALRM, signal.SIG_IGN)
        _watch['installed'] = False


def import_kyupy():
    """Import kyupy from the current working tree of the repository (never a stale copy)."""
    install_watchdog()
    src = os.path.join(REPO, 'src')
    if src not in sys.path:
        sys.path.insert(0, src)
    os.environ.setdefault('KYUPY_VERIF', '1')
    import io, contextlib
    with contextlib.redirect_stdout(io.StringIO()):
        import kyupy  # noqa: F401  (prints a 'numba unavailable' banner)
    assert os.path.realpath(kyupy.__file__).startswith(os.path.realpath(src)), kyupy.__file__
    kyupy.log.logfile = open(os.devnull, 'w')
    return kyupy


class MachineryError(Exception):
    pass


class TlcResult:
    def __init__(self, out, rc, wall):
        self.out = out
        self.rc = rc
        self.wall = wall
        self.fails = []      # tuples parsed from <<"FAIL", ...>> lines
        self.drifts = []     # tuples parsed from <<"DRIFT", ...>> lines
        self.infos = []      # tuples parsed from <<"INFO", ...>> lines
        self.generated = 0
        self.distinct = 0
        self.depth = 0
        self.invariant_violations = re.findall(r'Error: Invariant (\S+) is violated', out)
        self.action_violations = re.findall(r'Error: Action property (\S+) is violated', out)
        self.errors = [l for l in out.splitlines() if l.startswith('Error:')]
        for line in out.splitlines():
            line = line.strip()
            if line.startswith('<<"FAIL"') or line.startswith('<<"DRIFT"') or line.startswith('<<"INFO"'):
                tup = parse_tla_value(line)
                {'FAIL': self.fails, 'DRIFT': self.drifts, 'INFO': self.infos}[tup[0]].append(tuple(tup[1:]))
        m = re.findall(r'(\d+) states generated, (\d+) distinct states found', out)
        if m:
            self.generated, self.distinct = int(m[-1][0]), int(m[-1][1])
        m = re.findall(r'The depth of the complete state graph search is (\d+)', out)
        if m:
            self.depth = int(m[-1])
        self.coverage = {}
        for m in re.finditer(r'^<(\w+) line \d+, col \d+ to line \d+, col \d+ of module (\w+)>: (\d+):(\d+)', out, re.M):
            self.coverage[m.group(1)] = self.coverage.get(m.group(1), 0) + int(m.group(4))

    @property
    def completed(self):
        return 'Model checking completed' in self.out or 'Finished computing initial states' in self.out and self.generated > 0

    def crashed(self):
        """TLC failed for a reason other than a property violation."""
        bad = [e for e in self.errors
               if not re.match(r'Error: (Invariant \S+ is violated|Action property \S+ is violated|The behavior up to this point is|The following behavior constitutes a counter-example)', e)]
        return bad


def parse_tla_value(s):
    """Parse a (single-line) TLA+ value printed by TLC: tuples, sets, strings, ints, booleans, records."""
    pos = [0]

    def ws():
        while pos[0] < len(s) and s[pos[0]] in ' \t\r\n':
            pos[0] += 1

    def val():
        ws()
        if s.startswith('<<', pos[0]):
            pos[0] += 2
            items = []
            ws()
            if s.startswith('>>', pos[0]):
                pos[0] += 2
                return items
            while True:
                items.append(val())
                ws()
                if s.startswith('>>', pos[0]):
                    pos[0] += 2
                    return items
                assert s[pos[0]] == ',', (s, pos[0])
                pos[0] += 1
        if s[pos[0]] == '{':
            pos[0] += 1
            items = []
            ws()
            if s[pos[0]] == '}':
                pos[0] += 1
                return items
            while True:
                items.append(val())
                ws()
                if s[pos[0]] == '}':
                    pos[0] += 1
                    return items
                assert s[pos[0]] == ',', (s, pos[0])
                pos[0] += 1
        if s[pos[0]] == '[':
            pos[0] += 1
            rec = {}
            while True:
                ws()
                m = re.match(r'(\w+)\s*\|->', s[pos[0]:])
                assert m, (s, pos[0])
                pos[0] += m.end()
                rec[m.group(1)] = val()
                ws()
                if s[pos[0]] == ']':
                    pos[0] += 1
                    return rec
                assert s[pos[0]] == ',', (s, pos[0])
                pos[0] += 1
        if s[pos[0]] == '"':
            j = pos[0] + 1
            buf = []
            while s[j] != '"':
                if s[j] == '\\':
                    j += 1
                buf.append(s[j])
                j += 1
            pos[0] = j + 1
            return ''.join(buf)
        m = re.match(r'-?\d+', s[pos[0]:])
        if m:
            pos[0] += m.end()
            return int(m.group(0))
        m = re.match(r'TRUE|FALSE', s[pos[0]:])
        if m:
            pos[0] += m.end()
            return m.group(0) == 'TRUE'
        m = re.match(r'\w+', s[pos[0]:])
        assert m, (s, pos[0])
        pos[0] += m.end()
        return m.group(0)

    return val()


def extract_values(out, tag):
    """All values <<"tag", ...>> printed by TLC (possibly pretty-printed over several lines)."""
    vals = []
    for m in re.finditer(r'<<\s*"%s"' % tag, out):
        i = j = m.start()
        depth = 0
        while j < len(out):
            if out.startswith('<<', j):
                depth += 1
                j += 2
            elif out.startswith('>>', j):
                depth -= 1
                j += 2
                if depth == 0:
                    break
            else:
                j += 1
        try:
            vals.append(parse_tla_value(out[i:j]))
        except (AssertionError, IndexError):
            pass
    return vals


class Check:
    """Bookkeeping of one check run (one property, one tier)."""
    current = None

    def __init__(self, pid, tier=None, seed=None, level='model_checking'):
        self.pid = pid
        self.tier = tier or os.environ.get('VERIF_TIER', 'quick')
        if self.tier not in ('quick', 'thorough'):
            self.tier = 'quick'
        self.seed = int(seed if seed is not None else os.environ.get('VERIF_SEED', '20261003'))
        self.level = level
        self.t0 = time.time()
        self.scratch = tempfile.mkdtemp(prefix='kv-%s-' % pid)
        atexit.register(shutil.rmtree, self.scratch, True)
        self.violations = []       # dict(key, what, replay)
        self.known_hits = []
        self.drifts = []
        self.states = 0
        self.transitions = 0
        self.traces = 0
        self.evaluations = 0
        self.samples = []
        self.cover = {}            # name -> count (actions / branch tags / cases)
        self.tlc_runs = []
        self.assumptions = []
        self.extra = {}
        self.model_conforms = True
        self.nontrivial = set()
        kf = json.load(open(os.path.join(VERIF, 'known_findings.json')))
        self.known = {e['key']: e for e in kf.get('known', []) if e['property'] == pid}
        self._replay_n = 0
        Check.current = self
        os.makedirs(os.path.join(OUT, 'evidence'), exist_ok=True)

    @property
    def thorough(self):
        return self.tier == 'thorough'

    def pick(self, quick, thorough):
        return thorough if self.thorough else quick

    def path(self, name):
        return os.path.join(self.scratch, name)

    def log(self, *a):
        print('[%s %6.1fs]' % (self.pid, time.time() - self.t0), *a, flush=True)

    # ---------------------------------------------------------------- TLC
    def tlc(self, module, cfg=None, trace=None, workers=None, simulate=None, depth=None, timeout=1500,
            extra=(), label=None, coverage=False, cont=True, env=None, cfg_text=None, deadlock=False, dfid=None):
        """Run TLC on spec/<module>.tla with spec/<cfg>.cfg (or cfg_text). `trace` is JSON-serialisable
        data (or a path) handed to the spec through the TRACE_FILE environment variable."""
        label = label or (cfg or module)
        meta = tempfile.mkdtemp(prefix='meta-', dir=self.scratch)
        if cfg_text is not None:
            cfgpath = os.path.join(meta, module + '_gen.cfg')
            open(cfgpath, 'w').write(cfg_text)
        else:
            cfgpath = os.path.join(SPEC, (cfg or module) + '.cfg')
        e = dict(os.environ)
        e.pop('JAVA_TOOL_OPTIONS', None)
        if env:
            e.update(env)
        if trace is not None:
            if isinstance(trace, str):
                e['TRACE_FILE'] = trace
            else:
                tp = os.path.join(meta, 'trace.json')
                with open(tp, 'w') as f:
                    json.dump(trace, f, separators=(',', ':'))
                e['TRACE_FILE'] = tp
        w_ = workers or NCPU
        gc = ['-XX:+UseSerialGC', '-Xmx3g'] if w_ == 1 else ['-XX:+UseParallelGC', '-XX:ParallelGCThreads=%d' % min(8, w_), '-Xmx12g']
        cmd = ['java', '-Djava.io.tmpdir=' + meta] + gc + ['-Xss64m', '-cp', JAR, 'tlc2.TLC', '-config', cfgpath,
               '-metadir', os.path.join(meta, 'states'), '-noGenerateSpecTE',
               '-workers', str(workers or NCPU)]
        if not deadlock:
            cmd += ['-deadlock']
        if cont:
            cmd += ['-continue']
        if coverage:
            cmd += ['-coverage', '1']
        if simulate:
            cmd += ['-simulate', simulate]
        if depth:
            cmd += ['-depth', str(depth)]
        if dfid:
            cmd += ['-dfid', str(dfid)]
        cmd += list(extra) + [module]
        t = time.time()
        try:
            p = subprocess.run(cmd, cwd=SPEC, env=e, stdout=subprocess.PIPE, stderr=subprocess.STDOUT,
                               timeout=timeout, text=True, errors='replace')
            out, rc = p.stdout, p.returncode
        except subprocess.TimeoutExpired as ex:
            out = (ex.stdout or b'').decode(errors='replace') if isinstance(ex.stdout, bytes) else (ex.stdout or '')
            out += '\nError: TLC timed out after %ds' % timeout
            rc = -9
        r = TlcResult(out, rc, time.time() - t)
        r.label = label
        self.tlc_runs.append(dict(label=label, module=module, wall_s=round(r.wall, 2), rc=rc,
                                  generated=r.generated, distinct=r.distinct, depth=r.depth,
                                  fails=len(r.fails), drifts=len(r.drifts)))
        self.states += r.distinct
        self.transitions += r.generated
        for k, v in r.coverage.items():
            self.cover['%s.%s' % (label, k)] = v
        shutil.rmtree(meta, True)
        return r

    def tlc_batch(self, module, cfg=None, traces=None, shards=None, label=None, per_shard=150, **kw):
        """Trace validation of a batch: one initial state per trace (`tid`), split into shards that run as parallel
        single-worker TLC processes (measured: 16 workers on one batch are 3x SLOWER than 1 worker; 16 processes
        scale).  FAIL/DRIFT tuples must carry the trace number at position 1; it is mapped back to the batch."""
        from concurrent.futures import ThreadPoolExecutor
        traces = [scrub_trace(t) for t in traces]
        n = len(traces)
        label = label or (cfg or module)
        if n == 0:
            raise MachineryError('empty batch for ' + label)
        k = shards or max(1, min(NCPU, (n + per_shard - 1) // per_shard))
        # round-robin assignment balances expensive neighbours; idx maps a shard-local trace number back to the batch
        parts = [(list(range(i, n, k)), [traces[j] for j in range(i, n, k)]) for i in range(k) if i < n]
        kw.setdefault('workers', 1)

        def one(part):
            idx, tr = part
            return idx, self.tlc(module, cfg, trace=tr, label='%s[%d::%d]' % (label, idx[0], k), **kw)
        with ThreadPoolExecutor(max_workers=len(parts)) as ex:
            res = list(ex.map(one, parts))
        # A shard on which TLC cannot EVALUATE the verdicts (type error inside an operator, not a parse/config error)
        # holds an observation outside the domain of the specification's operators.  Isolate it (bisection), report it
        # as the verdict ObservationInDomain, and evaluate the rest of the shard without it.
        extra_fails, res2 = [], []
        for idx, r in res:
            rounds, n_before = 0, len(extra_fails)
            idx, tr = list(idx), [traces[j] for j in idx]
            while self._eval_crash(r) and rounds < 3 and len(tr) > 1:
                rounds += 1
                at = self._isolate(module, cfg, tr, label, kw)
                if at is None or not (isinstance(tr[at], dict) and 'raised' in tr[at]):
                    break
                extra_fails.append((self.pid, idx[at] + 1, 0, 'ObservationInDomain'))
                traces[idx[at]]['err'] = 'TLC cannot evaluate the verdicts on this observation: ' + ' '.join(self._eval_crash(r))[:300]
                del idx[at], tr[at]
                r = self.tlc(module, cfg, trace=tr, label='%s[rest %d]' % (label, rounds), **kw)
            if self._eval_crash(r) and rounds > 0 and len(extra_fails) > n_before:
                # more such observations than are worth isolating: the rest of this shard stays unevaluated
                self.extra['unevaluated_after_ObservationInDomain'] = self.extra.get('unevaluated_after_ObservationInDomain', 0) + len(tr)
                r = TlcResult('', 0, r.wall)
            res2.append((idx, r))
        res = res2
        merged = TlcResult('', 0, max(r.wall for _, r in res))
        merged.label = label
        for idx, r in res:
            merged.out += r.out
            merged.rc = max(merged.rc, r.rc) if r.rc >= 0 else r.rc
            merged.generated += r.generated
            merged.distinct += r.distinct
            merged.depth = max(merged.depth, r.depth)
            merged.invariant_violations += r.invariant_violations
            merged.action_violations += r.action_violations
            merged.errors += r.errors
            merged.infos += r.infos
            for f in r.fails:
                merged.fails.append((f[0], idx[f[1] - 1] + 1) + tuple(f[2:]))
            for f in r.drifts:
                merged.drifts.append((f[0], idx[f[1] - 1] + 1) + tuple(f[2:]))
        merged.fails += extra_fails
        return merged

    @staticmethod
    def _eval_crash(r):
        return [e for e in r.crashed() if re.search(r'Attempted to|unable to fingerprint|was evaluating the nested|Cannot convert value', e)]

    def _isolate(self, module, cfg, tr, label, kw):
        """Index of one trace of `tr` on which TLC's evaluation fails by itself (None: not reproducible in isolation)."""
        lo, hi = 0, len(tr)
        while hi - lo > 1:
            mid = (lo + hi) // 2
            if self._eval_crash(self.tlc(module, cfg, trace=tr[lo:mid], label='%s[isolate]' % label, **kw)):
                hi = mid
            else:
                lo = mid
        return lo if self._eval_crash(self.tlc(module, cfg, trace=[tr[lo]], label='%s[isolate]' % label, **kw)) else None

    def require_clean(self, r, allow_violation=True):
        """Raise MachineryError when TLC did not run to completion for a reason other than a verdict."""
        bad = r.crashed()
        if bad or (r.rc not in (0, 12, 13) and not (allow_violation and r.rc in (12, 13))):
            if bad or r.rc != 0:
                if bad or not (r.invariant_violations or r.action_violations):
                    tail = '\n'.join(r.out.splitlines()[-40:])
                    raise MachineryError('TLC run %s failed (rc=%s): %s\n%s' % (r.label, r.rc, bad[:3], tail))

    # ------------------------------------------------------------ verdicts
    def violation(self, key, what, replay_data=None):
        """Record a verdict violation; known findings are reported as such."""
        if key in self.known:
            if key not in [k for k, _ in self.known_hits]:
                self.known_hits.append((key, self.known[key]['what']))
            return
        if any(v['key'] == key for v in self.violations):
            return
        self._replay_n += 1
        rp = None
        if len(self.violations) < 20:
            os.makedirs(os.path.join(OUT, 'replays'), exist_ok=True)
            rp = os.path.join(OUT, 'replays', '%s-%d-%d.json' % (self.pid, self.seed, self._replay_n))
            with open(rp, 'w') as f:
                json.dump(dict(property=self.pid, seed=self.seed, tier=self.tier, key=key, what=what,
                               case=replay_data), f, indent=1, default=str)
        self.violations.append(dict(key=key, what=what, replay=rp))

    def drift(self, what):
        self.model_conforms = False
        if len(self.drifts) < 50:
            self.drifts.append(what)

    def sample(self, s):
        if len(self.samples) < 6:
            self.samples.append(s)

    def count(self, name, n=1):
        self.cover[name] = self.cover.get(name, 0) + n

    def need_cover(self, names):
        """Vacuity guard: every named action / branch tag must have been exercised."""
        missing = [n for n in names if self.cover.get(n, 0) == 0]
        if missing and self.violations:
            return      # verdicts already failed on what was explored; they are reported, not masked by the guard
        if missing:
            raise MachineryError('vacuity guard: never exercised: %s' % missing)

    # ------------------------------------------------------------ finish
    def finish(self, rule, explanation=None):
        wall = time.time() - self.t0
        for key, what in self.known_hits:
            print('KNOWN-FINDING: property=%s %s [%s]' % (self.pid, what, key))
        for d in self.drifts[:10]:
            print('DRIFT property=%s %s' % (self.pid, d))
        for v in self.violations[:20]:
            print('VIOLATION property=%s replay=%s' % (self.pid, v['replay']))
            print('  what: %s' % v['what'])
        cov = dict(states=max(1, self.states), transitions=max(1, self.transitions),
                   traces_validated_against_impl=self.traces,
                   evaluations=max(1, self.evaluations), distinct_nontrivial=max(len(self.nontrivial), 0),
                   rule=rule, samples=self.samples or ['(no sample recorded)'],
                   model_conforms=self.model_conforms, exercised=self.cover, tlc_runs=self.tlc_runs,
                   known_findings_hit=[k for k, _ in self.known_hits], drift=self.drifts[:10])
        if explanation:
            cov['explanation'] = explanation
        cov.update(self.extra)
        ev = dict(property_id=self.pid, tier=self.tier, seed=self.seed, level=self.level, coverage=cov,
                  assumptions=self.assumptions, wall_s=round(wall, 2), violations=len(self.violations))
        evname = self.pid + ('.replay.json' if getattr(self, 'is_replay', False) else '.json')
        evdir = 'evidence' if self.pid.startswith('C') else 'evidence_extra'      # X.. checks are not properties of the list
        os.makedirs(os.path.join(OUT, evdir), exist_ok=True)
        with open(os.path.join(OUT, evdir, evname), 'w') as f:
            json.dump(ev, f, indent=1, default=str)
        print('%s %s tier=%s seed=%d states=%d transitions=%d traces=%d evaluations=%d wall=%.1fs' % (
            self.pid, 'VIOLATED' if self.violations else 'held', self.tier, self.seed, self.states,
            self.transitions, self.traces, self.evaluations, wall))
        return 1 if self.violations else 0


def run_check(fn, pid):
    """Entry point wrapper: exit codes 0 held / 1 violation / 2 machinery failure."""
    try:
        rc = fn()
    except Exception as e:
        import traceback
        ck = Check.current
        if ck is not None and ck.violations:
            # verdicts evaluated by TLC have already established (and printed) violations; that the harness stumbles
            # afterwards over the same broken observations (post-processing, coverage bookkeeping) does not unsay them
            traceback.print_exc()
            print('note: harness stopped early after the violations above (%s)' % type(e).__name__)
            try:
                ck.finish('run ended early after violations: ' + repr(e)[:200])
            except Exception:
                pass
            rc = 1
        elif isinstance(e, MachineryError):
            print('MACHINERY-FAILURE property=%s %s' % (pid, e))
            rc = 2
        else:
            traceback.print_exc()
            print('MACHINERY-FAILURE property=%s unexpected exception in the harness' % pid)
            rc = 2
    stop_watchdog()
    sys.stdout.flush()
    sys.exit(rc)
