"""C11 - Parsed Verilog and bench netlists simulate as the described netlist.

(T) abstract flat modules (ports with ascending/descending/one-bit ranges, instances with named pins, constants tied
    to pins, continuous assigns with bit selects, concatenations and sized constants, escaped identifiers) are
    rendered to Verilog text in several equivalent styles (split/merged declarations, statement order, pin order,
    whitespace, comments, attributes), parsed with the REAL parser for both branchforks settings and resolved; TLC
    (TransformT.tla) compares the parsed circuit with the module's ground-truth netlist: port names in declaration
    order with bus bits in declared range order, identical Boolean function over all assignments, no unresolved
    cell; requesting branch forks only adds forks; the same netlist written as ISCAS bench yields an equivalent
    circuit.
"""
import random

from .core import Check, MachineryError, import_kyupy
from . import gen, nets, hdl, c10

PID = 'C11'
MENU = {'NANGATE': ['AND2_X1', 'NOR3_X1', 'AOI21_X1', 'OAI211_X1', 'MUX2_X1', 'FA_X1', 'HA_X1', 'DFF_X1', 'INV_X1', 'XOR2_X1', 'NAND2_X1', 'OR2_X1',
                    'AOI222_X1', 'BUF_X1', 'SDFF_X1', 'DLH_X1'],
        'SAED32': ['AO221X1_RVT', 'MUX41X1_RVT', 'FADDX1_RVT', 'DFFX1_RVT', 'NAND2X0_RVT', 'INVX1_RVT', 'OR3X1_RVT', 'XNOR2X1_RVT', 'AOI22X1_RVT'],
        'GSC180': ['ADDFX1', 'OAI33X1', 'MX2X1', 'DFFX1', 'NAND4X1', 'INVX1', 'XOR2X1', 'AOI21X1'],
        'SAED90': ['AO21X1', 'NOR2X0', 'MUX21X1', 'HADDX1', 'INVX0', 'AND3X1', 'DFFX1'],
        'NANGATE_ZN': ['AND2_X1', 'XOR2_X1', 'INV_X1', 'OR3_X1', 'NAND3_X1', 'FA_X1']}


def rec(before_c, parse_fn, lib, sk, what, resolve=True, onlyforks=False, text=None):
    r = dict(pid=PID, what=what, lib=lib, raised=False, resolve=resolve, onlyforks=onlyforks)
    r['before'] = nets.struct_t(before_c, sk)
    after_c = None
    try:
        after_c = parse_fn()
        r['after'] = nets.struct_t(after_c, sk)
    except Exception as e:
        r['raised'] = True
        r['err'] = repr(e)[:300]
        r['after'] = r['before']
    return r, after_c


def make(ck, rnd, n):
    from kyupy import verilog, bench
    L = c10.libs()
    recs, texts = [], {}
    for t in range(n):
        lname = rnd.choice(list(MENU))
        tlib = L[lname]
        mod = hdl.pruning_module(rnd, lname, tlib) if rnd.random() < 0.2 else hdl.random_hdl_module(rnd, tlib, MENU[lname])
        used = sorted({k for k, _, _ in mod['insts']})
        sk = nets.seq_kinds_of(tlib, used)
        truth = hdl.build(mod, tlib)
        if nets.n_sources(nets.struct_t(truth, sk), sk) > 7:
            continue
        lib = nets.lib_structs(tlib, used)
        key = gen.digest({k: v for k, v in mod.items() if k != '_order'})
        parsed = {}
        for style in range(ck.pick(2, 4)):
            seed = rnd.randrange(1 << 30)
            text = hdl.render_verilog(mod, random.Random(seed))
            truth = hdl.build(mod, tlib, order=mod['_order'])
            for bf in (False, True):
                what = 'verilog:%s:%s:style%d:bf%d' % (lname, key, seed, int(bf))
                texts[what] = text

                def parse(text=text, bf=bf, tlib=tlib, again=rnd.random() < 0.25):
                    if again:
                        scrap(verilog.parse(text, tlib=tlib, branchforks=bf))
                    c = verilog.parse(text, tlib=tlib, branchforks=bf)
                    c.resolve_tlib_cells(tlib)
                    return c
                r, after = rec(truth, parse, lib, sk, what)
                recs.append(r)
                if style == 0:
                    def parse_raw(text=text, bf=bf, tlib=tlib):
                        return verilog.parse(text, tlib=tlib, branchforks=bf)
                    try:
                        parsed[bf] = parse_raw()
                    except Exception:
                        parsed[bf] = None
        if parsed.get(False) is not None and parsed.get(True) is not None:
            what = 'branchforks:%s:%s' % (lname, key)
            r, _ = rec(parsed[False], lambda: parsed[True], lib, sk, what, resolve=False, onlyforks=True)
            recs.append(r)
    # the same netlist in both formats
    tlib = L['NANGATE']
    for t in range(n // 2):
        mod = hdl.random_bench_module(rnd, tlib)
        used = sorted({k for k, _, _ in mod['insts']})
        lib = nets.lib_structs(tlib, used)
        btxt = hdl.render_bench(mod, random.Random(rnd.randrange(1 << 30)), tlib)
        vtxt = hdl.render_verilog(mod, random.Random(rnd.randrange(1 << 30)))
        mod.pop('_order', None)
        what = 'bench-vs-verilog:%s' % gen.digest(mod)
        texts[what] = btxt + '\n-----\n' + vtxt
        try:
            if rnd.random() < 0.4:
                scrap(bench.parse(btxt))        # history: the same text was parsed before and that result was edited (an ECO)
            bc = bench.parse(btxt)
        except Exception as e:
            recs.append(dict(pid=PID, what=what, lib=lib, raised=True, resolve=False, onlyforks=False, before=nets.struct_t(hdl.build(mod, tlib)),
                             after=nets.struct_t(hdl.build(mod, tlib)), err='bench: ' + repr(e)[:200]))
            continue

        def parse(vtxt=vtxt):
            c = verilog.parse(vtxt, tlib=tlib, branchforks=rnd.random() < 0.5)
            c.resolve_tlib_cells(tlib)
            return c
        r, _ = rec(bc, parse, lib, set(), what)
        recs.append(r)
        # and the bench circuit against the ground truth
        truth = hdl.build(mod, tlib)
        r2, _ = rec(truth, lambda bc=bc: bc, lib, set(), 'bench:%s' % gen.digest(mod), resolve=False)
        recs.append(r2)
    return recs, texts


def scrap(c):
    """Edit a parsed circuit (remove a cell with its lines, swap two ports): whoever parses the same text again must get the
    netlist as written, not this object."""
    victim = next((n for n in c.nodes if n.kind != '__fork__' and n not in c.io_nodes), None)
    if victim is not None:
        for l in list(victim.ins) + list(victim.outs):
            if l is not None:
                l.remove()
        victim.remove()
    if len(c.io_nodes) >= 2:
        c.io_nodes[0], c.io_nodes[-1] = c.io_nodes[-1], c.io_nodes[0]


def main(tier=None, replay=None):
    ck = Check(PID, tier)
    import_kyupy()
    rnd = random.Random(ck.seed + 11)
    recs, texts = make(ck, rnd, ck.pick(90, 800))
    if replay:
        import json
        ck.is_replay = True
        want = json.load(open(replay))['case']['what']
        recs = [x for x in recs if x['what'] == want]
    r = ck.tlc_batch('TransformT', 'TransformT', traces=recs, label='T:TransformT', per_shard=30, timeout=1700)
    ck.require_clean(r)
    ck.traces += len(recs)
    ck.evaluations += r.distinct
    insane = []
    for pid, tid, a, clause in r.fails:
        x = recs[tid - 1]
        if pid == 'MACHINERY':
            insane.append(x['what'])
            continue
        ck.violation('%s:%s' % (clause, x['what']), '%s fails for %s (assignment %d) %s' % (clause, x['what'], a, x.get('err', '')),
                     dict(kind='hdl', what=x['what'], clause=clause, assignment=a, text=texts.get(x['what'])))
    if insane and not ck.violations:
        raise MachineryError('ground-truth structure not sane for the specification: %s' % insane[0])
    for x in recs:
        ck.count(x['what'].split(':')[0])
        ck.nontrivial.add(x['what'])
    ck.need_cover(['verilog', 'branchforks', 'bench-vs-verilog', 'bench'])
    k = [w for w in texts if w.startswith('verilog')][0]
    ck.sample(dict(case=k, verilog_text=texts[k]))
    ck.assumptions += ['supported subset: flat modules, named pin connections, single-driver signals, assigns from port/instance-driven signals or constants (no assign chains)',
                       'the text renderers and the ground-truth builder of the harness (trusted; DESIGN §7); lexical corner cases are sampled, not enumerated',
                       'state elements are compared in the order of their instantiation in the text (node creation order)', 'at most 7 sources per module; TLC, JSON reader, harness projection']
    return ck.finish('seeded random abstract modules over cells of all five libraries x 2..4 textual renderings x both branchforks settings; bench/Verilog '
                     'pairs of the same netlist; all input/state assignments of each case; distinct by (module, rendering seed, branchforks)')
