"""C09 - Circuit graph stays consistent under every edit history.

(M) design run of the concrete editing model CircuitEdit.tla (literal swap-with-last, fork squeeze, name maps,
    eliminate_1to1_forks, copy/pickle) - WF in every reachable state within the bounds;
(R) every distinct (canonical state, last edit) of a bounded model as an edit history -> stepped through the REAL
    Circuit API; (T) those recordings plus seeded random histories of 40..400 edits over <= 20 names (with
    eliminate, substitute, copy and pickle round trips that CONTINUE on the clone) are validated clause by clause
    by CircuitWF.tla after every edit.  Conformance with CircuitEdit.tla = DRIFT only.
"""
import pickle
import random

from .core import Check, MachineryError, import_kyupy, extract_values
from . import gen
from .project import project

PID = 'C09'
IMPL_SRC = ['input(a,b) output(z) z=and(a,b)',
            'input(a,b) output(x,y) x=and(a,b) y=or(x,b)',
            'input(a) output(z) n=not(a) z=and(a,n)',
            'input(a,b) output(z) z=buf(a)',
            '',
            'input(a)',
            'input(a,b) output(q,qn) q=DFF(a,b) qn=not(q)',
            'input(a,b) output(x,y,z) x=and(a,b) y=or(x,b) z=xor(x,a)']
_impls = []


def impls():
    if not _impls:
        from kyupy import bench
        for src in IMPL_SRC:
            c = bench.parse(src)
            c.eliminate_1to1_forks()
            _impls.append(c)
    return _impls


def impl_records():
    """The implementation circuits in the form of spec/CircuitImpls.tla (see tools/gen_impls.py)."""
    out = []
    for c in impls():
        st = project(c)
        out.append(dict(nodes=[dict(name=n['name'], kind=n['kind'], ins=n['ins'], outs=n['outs']) for n in st['nodes']],
                        lines=[[l['drv'], l['dpin'], l['rdr'], l['rpin']] for l in st['lines']], io=st['io']))
    return out


def impls_match_spec():
    import json, os
    from .core import SPEC
    try:
        return json.load(open(os.path.join(SPEC, 'CircuitImpls.json'))) == impl_records()
    except Exception:
        return False


def proj(c):
    st = project(c, full=True)
    for nd in st['nodes']:
        k = nd['kind'].lower()
        nd['seqk'] = 1 if 'dff' in k else 2 if 'latch' in k else 0
    return st


class Driver:
    """Steps abstract edit operations through the real public API and records the projection after each."""

    def __init__(self):
        from kyupy.circuit import Circuit
        self.c = Circuit('h')
        self.ev = []

    def step(self, act):
        from kyupy.circuit import Node, Line
        c = self.c
        eq = True
        raised = False
        try:
            k = act[0]
            if k == 'NewNode':
                Node(c, act[1], act[2])
            elif k == 'NewLine':
                d, r = c.nodes[act[1]], c.nodes[act[3]]
                Line(c, d if act[2] < 0 else (d, act[2]), r if act[4] < 0 else (r, act[4]))
            elif k == 'RemoveLine':
                self.gone = c.lines[act[1]]
                self.gone.remove()
            elif k == 'RemoveAgain':
                self.gone.remove()          # a handle kept from an earlier RemoveLine
            elif k == 'RemoveNode':
                c.nodes[act[1]].remove()
            elif k == 'AppendIo':
                c.io_nodes.append(c.nodes[act[1]])
            elif k == 'Elim':
                c.eliminate_1to1_forks()
            elif k == 'Copy':
                c2 = c.copy()
                eq = bool(c2 == c) and bool(c == c2)
                self.c = c2
            elif k == 'Pickle':
                c2 = pickle.loads(pickle.dumps(c))
                eq = bool(c2 == c) and bool(c == c2)
                self.c = c2
            elif k == 'Subst':
                c.substitute(c.nodes[act[1]], impls()[act[2]])
            else:
                raise MachineryError('unknown edit ' + str(act))
        except MachineryError:
            raise
        except Exception as e:
            raised = True
            self.ev.append(dict(act=list(act), st=dict(nodes=[], lines=[], io=[], cells=[], forks=[], stats=[]), raised=True, eq=False, err=repr(e)[:200]))
            return False
        self.ev.append(dict(act=list(act), st=proj(self.c), raised=False, eq=eq))
        return True


def fork_acyclic(c):
    forks = [n for n in c.nodes if n.kind == '__fork__']
    succ = {id(f): [l.reader for l in f.outs if l is not None and l.reader is not None and l.reader.kind == '__fork__'] for f in forks}
    state = {}

    def dfs(f):
        state[id(f)] = 1
        for g in succ.get(id(f), []):
            if state.get(id(g)) == 1:
                return False
            if id(g) in succ and state.get(id(g)) is None and not dfs(g):
                return False
        state[id(f)] = 2
        return True
    return all(state.get(id(f)) == 2 or dfs(f) for f in forks)


def elim_ready(c):
    if not fork_acyclic(c):
        return False
    ios = set(id(n) for n in c.io_nodes)
    for f in c.forks.values():
        if id(f) not in ios and len(f.outs) == 1:
            if len(f.ins) < 1 or f.ins[0] is None:
                return False
    return True


def random_history(rnd, length, names):
    """Well-formed use: explicit pins only on free positions (fork outputs only the next one), nodes removed after
    their lines, ports not removed, no duplicate names per namespace."""
    d = Driver()
    kinds = ['__fork__', '__fork__', 'and', 'dff', 'latch', 'OR2', 'input', 'output', 'CELLX']
    tries = 0
    while len(d.ev) < length and tries < length * 6:
        tries += 1
        c = d.c
        op = rnd.random()
        if op < 0.26 or len(c.nodes) < 2:
            nm, kind = rnd.choice(names), rnd.choice(kinds)
            if (nm in c.forks) if kind == '__fork__' else (nm in c.cells):
                continue
            act = ['NewNode', nm, kind]
        elif op < 0.58:
            dn, rn = rnd.choice(c.nodes), rnd.choice(c.nodes)
            dp = rp = -1
            if rnd.random() < 0.35:
                if dn.kind == '__fork__':
                    dp = len(dn.outs)
                else:
                    dp = rnd.randint(0, 3)
                    if dp < len(dn.outs) and dn.outs[dp] is not None:
                        continue
            if rn.kind == '__fork__':
                if any(l is not None for l in rn.ins):
                    continue            # a fork has one driver, on pin 0
                rp = rnd.choice([-1, 0])
            elif rnd.random() < 0.35:
                rp = rnd.randint(0, 4)
                if rp < len(rn.ins) and rn.ins[rp] is not None:
                    continue
            act = ['NewLine', dn.index, dp, rn.index, rp]
        elif op < 0.72 and c.lines:
            act = ['RemoveLine', rnd.choice(c.lines).index]
        elif op < 0.74:
            if getattr(d, 'gone', None) is None:
                continue
            act = ['RemoveAgain']
        elif op < 0.82:
            ios = set(id(n) for n in c.io_nodes)
            cand = [n for n in c.nodes if all(l is None for l in n.ins) and all(l is None for l in n.outs) and id(n) not in ios]
            if not cand:
                continue
            act = ['RemoveNode', rnd.choice(cand).index]
        elif op < 0.86:
            n = rnd.choice(c.nodes)
            if any(n is m for m in c.io_nodes):
                continue
            act = ['AppendIo', n.index]
        elif op < 0.90:
            if not elim_ready(c):
                continue
            act = ['Elim']
        elif op < 0.93:
            act = ['Copy']
        elif op < 0.96:
            act = ['Pickle']
        else:
            k = rnd.randrange(len(IMPL_SRC))
            im = impls()[k]
            nin = sum(1 for n in im.io_nodes if len(n.ins) == 0)
            nout = sum(1 for n in im.io_nodes if len(n.ins) > 0)
            ios = set(id(n) for n in c.io_nodes)
            cand = [n for n in c.nodes if n.kind not in ('__fork__',) and id(n) not in ios and len(n.ins) <= nin and len(n.outs) <= nout
                    and not any(l is not None and l.reader is n for l in n.outs)
                    and not any((f'{n.name}~{m.name}' in c.cells) or (f'{n.name}~{m.name}' in c.forks) for m in im.nodes)]
            if not cand:
                continue
            act = ['Subst', rnd.choice(cand).index, k]
        if not d.step(act):
            break
    return d.ev


def replay_history(hist):
    d = Driver()
    for act in hist:
        if not d.step(list(act)):
            break
    return d.ev


def judge(ck, traces, keys, inputs):
    r = ck.tlc_batch('CircuitWF', 'CircuitWF', traces=traces, label='T:CircuitWF', per_shard=60, timeout=1700)
    ck.require_clean(r)
    ck.traces += len(traces)
    ck.evaluations += sum(len(t) for t in traces)
    for pid, tid, l, clause in r.fails:
        tr = traces[tid - 1]
        ck.violation('%s:%s' % (clause, keys[tid - 1]),
                     '%s violated after edit %d (%s) of history %s %s' % (clause, l, tr[l - 1]['act'], keys[tid - 1], tr[l - 1].get('err', '')),
                     dict(kind='hist', hist=[e['act'] for e in tr[:l]], clause=clause))


def main(tier=None, replay=None):
    ck = Check(PID, tier)
    import_kyupy()
    rnd = random.Random(ck.seed + 9)
    if replay:
        import json
        ck.is_replay = True
        h = json.load(open(replay))['case']['hist']
        judge(ck, [replay_history(h)], ['replay'], [h])
        return ck.finish('replay')
    cfg = ck.pick('MC_CircuitEdit', 'MC_CircuitEdit_b')
    r = ck.tlc('CircuitEdit', cfg, coverage=True, label='M:' + cfg, cont=False, timeout=3000)
    ck.require_clean(r, allow_violation=False)
    if r.rc != 0:
        raise MachineryError('design run: the editing MODEL violates %s - specification bug' % (r.invariant_violations + r.action_violations))
    ck.need_cover(['M:%s.%s' % (cfg, a) for a in ('NewNode', 'Eliminate', 'Copy', 'Pickle')])
    # the same with Circuit.substitute (transcribed in CircuitEdit.tla; implementation circuits of CircuitImpls.tla)
    cfg2 = ck.pick('MC_CircuitEdit_s', 'MC_CircuitEdit_sb')
    r = ck.tlc('CircuitEdit', cfg2, label='M:' + cfg2, cont=False, timeout=3000)
    ck.require_clean(r, allow_violation=False)
    if r.rc != 0:
        raise MachineryError('design run with substitute: the editing MODEL violates %s - specification bug' % (r.invariant_violations + r.action_violations))
    # (R) behaviours of the model into the real code
    hs = {}
    for gcfg in ('Gen_CircuitEdit', 'Gen_CircuitEdit_s'):
        g = ck.tlc('CircuitEdit', gcfg, workers=1, label='gen:' + gcfg, cont=False, timeout=1200)
        ck.require_clean(g, allow_violation=False)
        for v in extract_values(g.out, 'HIST'):
            h = v[1]
            hs[str(h)] = h
    hists = [h for h in hs.values() if len(h) > 0]
    if len(hists) < 100:
        raise MachineryError('too few histories generated by TLC: %d' % len(hists))
    traces = [replay_history(h) for h in hists]
    keys = ['tlc:' + gen.digest(h) for h in hists]
    ck.count('tlc-histories', len(hists))
    nmodel = len(traces)
    # seeded random histories
    names = ['n%d' % k for k in range(20)]
    for i in range(ck.pick(110, 900)):
        length = rnd.choice([40, 80, 150]) if not ck.thorough else rnd.choice([80, 200, 400])
        tr = random_history(rnd, length, rnd.sample(names, rnd.choice([4, 8, 20])))
        traces.append(tr)
        keys.append('rand:' + gen.digest([e['act'] for e in tr]))
    ck.count('random-histories', len(traces) - nmodel)
    # scale: pin positions beyond 8 and 16 bits on a small circuit (a wide macro cell), carried through pickle and copy
    for wide in (300, 70000):
        h = [['NewNode', 'macro', 'MACRO'], ['NewNode', 's', '__fork__'], ['NewNode', 't', '__fork__'], ['NewLine', 1, -1, 0, wide], ['NewLine', 0, wide, 2, -1],
             ['Pickle'], ['Copy'], ['NewLine', 1, -1, 0, 3], ['Pickle']]
        traces.append(replay_history(h))
        keys.append('wide-pin-%d' % wide)
    # directed: 1:1 forks in series (a signal with several names in a row - what the Verilog reader builds with branch forks
    # for a single-reader net, what assign aliases build), every creation order of the forks, then eliminate, then more edits
    import itertools
    for k in (2, 3):
        for order in itertools.permutations(range(k)):
            h = [['NewNode', 'g1', 'and'], ['NewNode', 'g2', 'OR2']] + [['NewNode', 'f%d' % j, '__fork__'] for j in order]
            idx = {j: 2 + order.index(j) for j in range(k)}
            h.append(['NewLine', 0, -1, idx[0], -1])
            for j in range(k - 1):
                h.append(['NewLine', idx[j], -1, idx[j + 1], -1])
            h.append(['NewLine', idx[k - 1], -1, 1, 1])
            h += [['Elim'], ['NewNode', 'x', '__fork__'], ['Copy'], ['Pickle']]
            traces.append(replay_history(h))
            keys.append('fork-chain-%d-%s' % (k, ''.join(map(str, order))))
            ck.count('fork-chain-histories')
    for tr in traces:
        for e in tr:
            ck.count('edit:' + e['act'][0])
        ck.nontrivial.add(gen.digest([e['act'] for e in tr]))
    ck.sample(dict(history=[e['act'] for e in traces[-1][:12]], state_after_first_edit=traces[-1][0]['st']))
    judge(ck, traces, keys, None)
    # conformance with the concrete model (DRIFT only), substitute included as long as the implementation circuits the
    # real bench parser builds are the ones CircuitImpls.tla was generated from
    with_subst = impls_match_spec()
    if not with_subst:
        ck.drift('the implementation circuits built by the bench parser differ from spec/CircuitImpls.tla: histories with substitute are not followed by the model')
    conf = [t for t in traces if t and not any((e['act'][0] == 'Subst' and not with_subst) or e['raised'] for e in t)]
    ck.count('model-followed-substitutes', sum(1 for t in conf for e in t if e['act'][0] == 'Subst'))
    conf = conf[:nmodel] + [t for t in conf[nmodel:] if len(t) <= 80][:ck.pick(40, 300)]
    r2 = ck.tlc_batch('CircuitEditTrace', 'CircuitEditTrace', traces=conf, label='T:CircuitEditTrace', per_shard=80, timeout=1700)
    if r2.crashed():
        ck.drift('CircuitEdit.tla could not follow a recorded history: %s' % r2.crashed()[:2])
    for dft in r2.drifts:
        ck.drift('CircuitEdit.tla state differs from the real Circuit after edit %s of a recorded history' % (dft[2],))
    want = sum(len(t) for t in conf) + len(conf)
    if not r2.drifts and not r2.crashed() and r2.distinct != want:
        ck.drift('CircuitEdit.tla consumed %d of %d recorded states' % (r2.distinct, want))
    ck.need_cover(['edit:' + e for e in ('NewNode', 'NewLine', 'RemoveLine', 'RemoveAgain', 'RemoveNode', 'AppendIo', 'Elim', 'Copy', 'Pickle', 'Subst')])
    ck.assumptions += ['well-formed use: explicit pins only on free positions (on a fork output only the next position; a fork has a single driver on pin 0), nodes removed after '
                       'their lines, ports not removed, eliminate only when 1:1 forks have a driver and forks form no loop, substitute only '
                       'where the port counts match and generated names are free', 'TLC, JSON reader, harness projection (public attributes)']
    ck.extra['model_constants'] = 'MC_CircuitEdit: 2 names, 1 cell kind + fork, <=3 nodes, <=3 lines, pins <=2, depth <=5 (thorough 6); MC_CircuitEdit_s: the same with pins <=1 and substitute of implementations 1,3,4,5,6; Gen / Gen_s depth <=4'
    return ck.finish('edit histories: every distinct (canonical state, last edit) of the bounded TLC model + seeded random histories of 40..400 '
                     'public edits over <=20 names incl. eliminate, substitute (7 implementation shapes), copy and pickle (continuing on the clone); '
                     'plus histories generated with substitute (Gen_CircuitEdit_s) and two histories with pin positions 300 / 70000; distinct by the edit sequence')
