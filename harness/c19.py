"""C19 - Built-in library cells have consistent pins and datasheet Boolean functions.

(M on published data) TechlibT.tla on every cell name of GSC180, NANGATE, NANGATE_ZN, SAED32, SAED90: pin table
well-formedness and agreement with the implementation's ports; for every cell of a purely combinational family the
implementation's function per output pin (Netlist.CellOuts, evaluated by TLC over all 2^n input assignments)
equals the datasheet function of the family its NAME denotes.  The name -> (family, pin grouping / roles)
classification below is the trusted input of the check.
"""
import itertools
import re

from .core import Check, MachineryError, import_kyupy
from . import nets, gen

PID = 'C19'


def classify(lib, name, ins, outs):
    """(family, groups, roles, outroles) from the cell NAME and pin NAMES only (vendor naming conventions)."""
    base = re.sub(r'_(RVT|LVT|HVT)$', '', name)
    none = ('none', [], [], [])
    m = re.match(r'^(NAND|NOR|AND|OR|XNOR|XOR)(\d)(?:_?X\d+)$', base)
    if m and int(m.group(2)) == len(ins) and len(outs) == 1:
        return (m.group(1).lower(), [], [], [])
    if re.match(r'^(BUF_?X\d+|CLKBUF_?X\d+|NBUFFX\d+|AOBUFX\d+|DELLN\dX\d+)$', base) and len(ins) == 1:
        return ('buf', [], [], [])
    if re.match(r'^(INV_?X\d+|AOINVX\d+|IBUFFX\d+)$', base) and len(ins) == 1:
        return ('inv', [], [], [])
    m = re.match(r'^(AOI|OAI|AO|OA)(\d+)(?:_?X\d+)$', base)
    if m and len(outs) == 1:
        digits = [int(d) for d in m.group(2)]
        if sum(digits) != len(ins):
            return none
        if lib in ('SAED32', 'SAED90'):
            # pins numbered consecutively, grouped in the order of the digits: AO221: (1,2)(3,4)(5)
            groups, k = [], 1
            for d in digits:
                groups.append(list(range(k, k + d)))
                k += d
        else:
            # pins grouped by their leading letter: A0,A1 / B0 ...   or   A / B1,B2 / C1,C2
            byl = {}
            for i, p in enumerate(ins):
                byl.setdefault(p[0], []).append(i + 1)
            groups = list(byl.values())
            if sorted(len(g) for g in groups) != sorted(digits):
                return none
        return (m.group(1).lower(), groups, [], [])
    if re.match(r'^(MUX2_X\d+|MX2X\d+|MUX21X\d+)$', base) and len(ins) == 3:
        return ('mux2', [], [1, 2, 3], [])
    if re.match(r'^MUX41X\d+$', base) and len(ins) == 6:
        return ('mux4', [], [1, 2, 3, 4, 5, 6], [])
    if re.match(r'^(HA_X\d+|ADDHX\d+|HADDX\d+)$', base) and len(ins) == 2 and len(outs) == 2:
        s = [i + 1 for i, p in enumerate(outs) if p in ('S', 'SO')]
        c = [i + 1 for i, p in enumerate(outs) if p in ('CO', 'C1')]
        if len(s) == 1 and len(c) == 1:
            return ('ha', [], [1, 2], [s[0], c[0]])
    if re.match(r'^(FA_X\d+|ADDFX\d+|FADDX\d+)$', base) and len(ins) == 3 and len(outs) == 2:
        s = [i + 1 for i, p in enumerate(outs) if p == 'S']
        c = [i + 1 for i, p in enumerate(outs) if p == 'CO']
        if len(s) == 1 and len(c) == 1 and [p for p in ins] in (['A', 'B', 'CI'],):
            return ('fa', [], [1, 2, 3], [s[0], c[0]])
    return none


def datasheet_pins(lib, name, fam, nin, groups):
    """Pin names the vendor data books (and the docstrings of the library variants) use for the classified families;
    None = no expectation.  Trusted table, part of the classification."""
    base = re.sub(r'_(RVT|LVT|HVT)$', '', name)
    simple = fam in ('and', 'nand', 'or', 'nor', 'xor', 'xnor')
    if lib == 'GSC180':
        if simple: return list('ABCD')[:nin], ['Y']
        if fam in ('buf', 'inv'): return ['A'], ['Y']
        if fam in ('aoi', 'oai'): return [g + str(i) for g, grp in zip('AB', groups) for i in range(len(grp))], ['Y']
        if fam == 'mux2': return ['A', 'B', 'S0'], ['Y']
        if fam == 'ha': return ['A', 'B'], ['CO', 'S']
        if fam == 'fa': return ['A', 'B', 'CI'], ['CO', 'S']
    if lib in ('NANGATE', 'NANGATE_ZN'):
        zn = lib == 'NANGATE_ZN'
        if fam in ('nand', 'nor'): return ['A%d' % (i + 1) for i in range(nin)], ['ZN']
        if fam in ('and', 'or'): return ['A%d' % (i + 1) for i in range(nin)], ['ZN' if zn else 'Z']
        if fam == 'xor': return (['A', 'B'] if zn else ['A1', 'A2']), ['Z']
        if fam == 'xnor': return (['A', 'B'] if zn else ['A1', 'A2']), ['ZN']
        if fam == 'inv': return (['A'] if zn else ['I']), ['ZN']
        if fam == 'buf': return ['A'], ['Z']
        if fam == 'mux2': return ['A', 'B', 'S'], ['Z']
        if fam == 'ha': return ['A', 'B'], ['CO', 'S']
        if fam == 'fa': return ['A', 'B', 'CI'], ['CO', 'S']
        if fam in ('aoi', 'oai'): return None, ['ZN']
    if lib == 'SAED32':
        if simple or fam in ('ao', 'oa', 'aoi', 'oai'): return ['A%d' % (i + 1) for i in range(nin)], ['Y']
        if fam in ('buf', 'inv'): return ['A'], ['Y']
        if fam == 'mux2': return ['A1', 'A2', 'S0'], ['Y']
        if fam == 'mux4': return ['A1', 'A2', 'A3', 'A4', 'S0', 'S1'], ['Y']
    if lib == 'SAED90':
        neg = fam in ('nand', 'nor', 'aoi', 'oai')
        if simple or fam in ('ao', 'oa', 'aoi', 'oai'): return ['IN%d' % (i + 1) for i in range(nin)], ['QN' if neg else 'Q']
        if fam == 'buf': return ['INP'], ['Z']
        if fam == 'inv': return ['INP'], ['ZN']
        if fam == 'mux2': return ['IN1', 'IN2', 'S'], ['Q']
        if fam == 'mux4': return ['IN1', 'IN2', 'IN3', 'IN4', 'S0', 'S1'], ['Q']
    if lib in ('SAED32', 'SAED90'):
        if fam == 'ha': return ['A0', 'B0'], ['SO', 'C1']
        if fam == 'fa': return ['A', 'B', 'CI'], ['S', 'CO']
    return None, None


def source_names():
    """The cell names the library SOURCE TEXTS of kyupy/techlib.py expand to, read by the harness itself: the string
    passed to each TechLib(...) (string constants and module-level string names joined by +), records separated by ';',
    the first blank-delimited token of a record is its name pattern, {a,b,c} alternatives multiply out."""
    import ast, os
    from .core import REPO
    tree = ast.parse(open(os.path.join(REPO, 'src', 'kyupy', 'techlib.py')).read())
    strs, out = {}, {}

    def val(e):
        if isinstance(e, ast.Constant) and isinstance(e.value, str):
            return e.value
        if isinstance(e, ast.Name) and e.id in strs:
            return strs[e.id]
        if isinstance(e, ast.BinOp) and isinstance(e.op, ast.Add):
            a, b = val(e.left), val(e.right)
            return None if a is None or b is None else a + b
        if isinstance(e, ast.Call) and isinstance(e.func, ast.Attribute) and e.func.attr == 'replace' and len(e.args) == 2:
            base, a, b = val(e.func.value), val(e.args[0]), val(e.args[1])
            return None if None in (base, a, b) else base.replace(a, b)
        return None
    for node in tree.body:
        if isinstance(node, ast.Assign) and len(node.targets) == 1 and isinstance(node.targets[0], ast.Name):
            v = val(node.value)
            if v is not None:
                strs[node.targets[0].id] = v
            elif isinstance(node.value, ast.Call) and getattr(node.value.func, 'id', '') == 'TechLib' and node.value.args:
                src = val(node.value.args[0])
                if src is None:
                    continue
                names = []
                for rec in src.split(';'):
                    toks = rec.split()
                    if not toks:
                        continue
                    parts = [x[1:-1].split(',') if x.startswith('{') else [x] for x in re.split(r'({[^}]*})', toks[0]) if x]
                    names += [''.join(t) for t in itertools.product(*parts)]
                out[node.targets[0].id] = names
    return out


def simulate_cell(impl, m):
    """All 2^n input assignments of a combinational cell through the REAL LogicSim (m = 2 or 8) on the cell's implementation
    circuit as the library publishes it: sim[k][a] = value of output pin k (declaration order) under assignment a
    (bit i of a = input pin i).  Empty on any exception (reported through SimulatedIsDatasheet as missing data)."""
    import numpy as np
    from kyupy import logic
    from kyupy.logic_sim import LogicSim
    try:
        c = impl.copy()
        ins = [i for i, n in enumerate(c.io_nodes) if len(n.ins) == 0]
        outs = [i for i, n in enumerate(c.io_nodes) if len(n.ins) > 0]
        if len(ins) > 8 or len(c.s_nodes) != len(c.io_nodes):
            return None
        P = 1 << len(ins)
        mv = np.zeros((len(c.s_nodes), P), dtype=np.uint8)
        for j, i in enumerate(ins):
            mv[i] = [3 if (a >> j) & 1 else 0 for a in range(P)]
        sim = LogicSim(c, sims=P, m=m)
        sim.s[0] = logic.mv_to_bp(mv)
        sim.s_to_c()
        sim.c_prop()
        sim.c_to_s()
        res = logic.bp_to_mv(sim.s[1])[:, :P]
        return [[{0: 0, 3: 1}.get(int(v) if m == 8 else (3 if int(v) & 1 else 0), 2) for v in res[i]] for i in outs]
    except Exception as e:
        return [['ERR ' + repr(e)[:80]]]


def records():
    from .c10 import libs
    recs = []
    srcn = source_names()
    for lname, tlib in libs().items():
        first = True
        for name, (impl, pins) in tlib.cells.items():
            plist = [dict(name=p, idx=int(i), out=bool(o)) for p, (i, o) in pins.items()]
            ins = [p['name'] for p in plist if not p['out']]
            outs = [p['name'] for p in plist if p['out']]
            fam, groups, roles, outroles = classify(lname, name, ins, outs)
            parts = [s[1:-1].split(',') if s[0] == '{' else [s] for s in re.split(r'({[^}]+})', impl.name or '') if len(s) > 0]
            expands = [''.join(item) for item in itertools.product(*parts)] if parts else []
            defined = [(e in tlib.cells and tlib.cells[e][0] is impl) for e in expands]
            ein, eout = datasheet_pins(lname, name, fam, len(ins), groups)
            recs.append(dict(lib=lname, name=name, impl=nets.struct_t(impl), pins=plist, expands=expands, defined=defined,
                             fam=fam, groups=groups, roles=roles, outroles=outroles,
                             ein=ein if ein is not None else [], eout=eout if eout is not None else [],
                             hasein=ein is not None, haseout=eout is not None,
                             sim2=(simulate_cell(impl, 2) or []) if fam != 'none' else [], sim8=(simulate_cell(impl, 8) or []) if fam != 'none' else [],
                             # carried by the first record of a library: every name of its source text, and whether it is defined
                             libnames=srcn.get(lname, []) if first else [], libdefined=[n in tlib.cells for n in srcn.get(lname, [])] if first else []))
            first = False
    return recs


def main(tier=None, replay=None):
    ck = Check(PID, tier)
    import_kyupy()
    recs = records()
    if replay:
        import json
        ck.is_replay = True
        want = json.load(open(replay))['case']['cell']
        recs = [x for x in recs if x['lib'] + ':' + x['name'] == want]
    r = ck.tlc_batch('TechlibT', 'TechlibT', traces=recs, label='M:TechlibT', per_shard=70, timeout=1500)
    ck.require_clean(r)
    ck.evaluations += r.distinct
    for pid, tid, a, clause in r.fails:
        x = recs[tid - 1]
        ck.violation('%s:%s:%s' % (clause, x['lib'], x['name']), '%s fails for cell %s.%s (family %s, input assignment %d)' % (clause, x['lib'], x['name'], x['fam'], a),
                     dict(kind='cell', cell=x['lib'] + ':' + x['name'], clause=clause, assignment=a, pins=x['pins']))
    for x in recs:
        ck.count('lib:' + x['lib'])
        ck.count('family:' + x['fam'])
        ck.nontrivial.add(x['lib'] + ':' + x['name'])
    ck.need_cover(['family:' + f for f in ('and', 'nand', 'or', 'nor', 'xor', 'xnor', 'buf', 'inv', 'ao', 'aoi', 'oa', 'oai', 'mux2', 'mux4', 'ha', 'fa')])
    ck.count('source-text-names', sum(len(x['libnames']) for x in recs))
    if not replay and sum(len(x['libnames']) for x in recs) < len(recs):
        # the library texts are no longer plain TechLib("...") literals the harness can read: SourceNamesDefined is not
        # evaluated on all names (the per-definition clause NamesDefined still is); reported, not an alarm
        ck.drift('only %d cell names could be read from the source texts of techlib.py (%d cells are defined): SourceNamesDefined is partial' % (
            sum(len(x['libnames']) for x in recs), len(recs)))
    ex = [x for x in recs if x['fam'] == 'aoi'][0]
    ck.sample(dict(cell=ex['lib'] + ':' + ex['name'], family=ex['fam'], groups=ex['groups'], pins=ex['pins']))
    ck.extra['exhaustive'] = True
    ck.assumptions += ['the name -> (family, pin grouping, pin roles) classification table of the harness (vendor naming conventions)',
                       'tri-state, isolation, clock-gating, decoder, tie, filler, power-switch and sequential cells get the pin-table checks only',
                       'TLC, JSON reader, harness projection of the implementation circuits']
    return ck.finish('all cell names of the five built-in libraries (complete); for the %d cells of a combinational datasheet family all 2^n input '
                     'assignments; distinct by library:cell name' % sum(1 for x in recs if x['fam'] != 'none'))
