"""./check <id> [--tier quick|thorough] [--replay <file>]"""
import argparse
import importlib
import sys

from .core import run_check


def main():
    ap = argparse.ArgumentParser()
    ap.add_argument('pid')
    ap.add_argument('--tier', default=None)
    ap.add_argument('--replay', default=None)
    a = ap.parse_args()
    pid = a.pid.upper()
    try:
        mod = importlib.import_module('harness.' + pid.lower())
    except ModuleNotFoundError:
        print('no check for', pid)
        sys.exit(2)
    run_check(lambda: mod.main(a.tier, a.replay), pid)


if __name__ == '__main__':
    main()
