"""C16 - The fault-injection callback sees and controls every evaluated signal.

(T) the real LogicSim.c_prop is run with a recording callback in all three logics; the recorded invocations
    (identity received, copy of the writable view), the overwrite performed and the captured results are judged by
    CallbackT.tla: OncePerSignal, InOrder (any valid evaluation order is accepted), ViewIsFresh, NoOpUnchanged,
    OverrideIsRedrive (= Netlist.EvalO, the netlist with that signal driven by the overwritten values).
"""
import operator
import random

import numpy as np

from .core import Check, MachineryError, import_kyupy
from . import gen, lsim

PID = 'C16'


def one_record(c, st, m, lanes, stim, reuse, strip, inj_line, inj_vals):
    from kyupy import logic
    from kyupy.logic_sim import LogicSim
    rec = dict(st=st, m=m, lanes=lanes, stim=stim, strip=strip, calls=[], inj=dict(line=inj_line, vals=inj_vals),
               resp=[], plain=[], rerun=[], raised=False)
    mdim = {2: 1, 4: 2, 8: 3}[m]
    mask = {2: 1, 4: 3, 8: 7}[m]
    try:
        plain = lsim.run_logic(c, m, lanes, stim, reuse, strip)
        rec['plain'] = lsim.codes(plain, 1, lanes)

        def cb(line, view):
            li = operator.index(line)
            full = np.zeros((3, view.shape[-1]), dtype=np.uint8)
            full[:view.shape[0]] = view
            vals = (logic.bp_to_mv(full.reshape(1, 3, -1))[0, :lanes] & mask).astype(int).tolist()
            rec['calls'].append(dict(line=int(li), vals=vals))
            if li == inj_line:
                codes = np.array(inj_vals, dtype=np.uint8)
                if m == 2:
                    codes = np.where(codes & 1, 3, 0).astype(np.uint8)
                bp = logic.mv_to_bp(codes.reshape(1, -1))[0]
                keep = np.uint8((0xff << (lanes % 8)) & 0xff) if lanes % 8 else np.uint8(0)
                new = bp[:view.shape[0]].copy()
                new[:, -1] = (new[:, -1] & ~keep) | (view[:, -1] & keep)
                view[...] = new
        fn = cb
        if (inj_line + lanes + m) % 3 == 0:
            class Recorder(list):             # a callable OBJECT that is falsy while empty (any callable is a callback)
                def __call__(self, line, view):
                    self.append(operator.index(line))
                    return cb(line, view)
            fn = Recorder()
        warm = None
        if (inj_line + 2 * lanes + m) % 4 == 1:
            # history: the same simulator already ran an injected propagation of another pattern set with another callback
            alpha = {2: [0, 1], 4: [0, 1, 2, 3], 8: list(range(8))}[m]
            warm = [[alpha[(v + 1 + i + p) % len(alpha)] for p, v in enumerate(row)] for i, row in enumerate(stim)]
        s = lsim.run_logic(c, m, lanes, stim, reuse, strip, fn, True, warm=warm, warm_cb=(lambda line, view: None) if warm is not None else None)
        rec['resp'] = lsim.codes(s, 1, lanes)
        # the same simulator instance, propagated once more without any callback
        s.c_prop()
        s.c_to_s()
        rec['rerun'] = lsim.codes(s, 1, lanes)
    except Exception as e:
        rec['raised'] = True
        rec['err'] = repr(e)[:300]
    return rec


def build(ck, rnd, n):
    recs, meta = [], []
    for t in range(n):
        c = gen.gen_circuit(rnd, max_gates=ck.pick(7, 12), max_ff=2)
        st = lsim.struct(c)
        for m in (2, 4, 8):
            lanes = rnd.choice([1, 3, 5, 8, 9])
            stim = lsim.rand_stim(rnd, m, len(c.s_nodes), lanes, families=False)
            reuse, strip = rnd.random() < 0.5, rnd.random() < 0.4
            nl = len(c.lines)
            cand = [-1] + [rnd.randrange(nl) for _ in range(ck.pick(2, 4))]
            for inj in cand:
                if inj >= 0 and strip:
                    d = c.lines[inj].driver
                    if d.kind == '__fork__' and d not in c.s_nodes:
                        continue   # a branch of a stripped fork is not an evaluated signal
                alpha = {2: [0, 1], 4: [0, 1, 2, 3], 8: list(range(8))}[m]
                vals = [rnd.choice(alpha) for _ in range(lanes)]
                mt = dict(circuit=gen.circuit_state(c), m=m, lanes=lanes, stim=stim, reuse=reuse, strip=strip, inj=inj, vals=vals)
                recs.append(one_record(c, st, m, lanes, stim, reuse, strip, inj, vals))
                meta.append(mt)
    return recs, meta


def judge(ck, recs, meta):
    r = ck.tlc_batch('CallbackT', 'CallbackT', traces=recs, label='T:CallbackT', per_shard=40, timeout=1700)
    ck.require_clean(r)
    ck.traces += len(recs)
    ck.evaluations += sum(x['lanes'] for x in recs)
    for pid, tid, p, clause in r.fails:
        if pid == 'MACHINERY':
            raise MachineryError('record %d not sane' % tid)
        mt = meta[tid - 1]
        ck.violation('%s:%s:m%d:inj%d:r%ds%d' % (clause, gen.digest(mt['circuit']), mt['m'], mt['inj'], mt['reuse'], mt['strip']),
                     '%s fails in lane %d (m=%d, overwritten line %d, c_reuse=%s, strip_forks=%s) %s' % (
                         clause, p, mt['m'], mt['inj'], mt['reuse'], mt['strip'], recs[tid - 1].get('err', '')),
                     dict(kind='cb', input=mt, clause=clause))


def main(tier=None, replay=None):
    ck = Check(PID, tier)
    import_kyupy()
    rnd = random.Random(ck.seed + 16)
    if replay:
        import json
        ck.is_replay = True
        mt = json.load(open(replay))['case']['input']
        c = gen.circuit_from_state(mt['circuit'])
        judge(ck, [one_record(c, lsim.struct(c), mt['m'], mt['lanes'], mt['stim'], mt['reuse'], mt['strip'], mt['inj'], mt['vals'])], [mt])
        return ck.finish('replay')
    recs, meta = build(ck, rnd, ck.pick(90, 700))
    judge(ck, recs, meta)
    for mt, rec in zip(meta, recs):
        ck.count('m%d' % mt['m'])
        ck.count('noop' if mt['inj'] < 0 else 'override')
        ck.count('strip' if mt['strip'] else 'nostrip')
        ck.count('callback-invocations', len(rec['calls']))
        ck.nontrivial.add(gen.digest(mt['circuit']) + '/%d/%d' % (mt['m'], mt['inj']))
    ck.need_cover(['m2', 'm4', 'm8', 'noop', 'override', 'strip', 'nostrip', 'callback-invocations'])
    ck.sample(dict(m=meta[1]['m'], overwritten_line=meta[1]['inj'], with_values=meta[1]['vals'], first_calls=recs[1]['calls'][:4]))
    ck.assumptions += ['the identity handed to the callback is accepted as a Line or as its index (operator.index)',
                       'a gate with unconnected output has no signal; an invocation naming the scratch slot is ignored',
                       'branches of stripped forks are not evaluated signals', 'TLC, JSON reader, harness projection']
    return ck.finish('random circuits x logics 2/4/8 x batch sizes x {c_reuse} x {strip_forks} x (no-op | overwrite of a random evaluated line '
                     'with random values); distinct by (circuit digest, m, overwritten line)')
