"""Seeded generators of circuits, stimuli, delays (inputs only: every run on them is judged by TLC)."""
import random

PRIMS = {1: ['BUF1', 'INV1'],
         2: ['AND2', 'NAND2', 'OR2', 'NOR2', 'XOR2', 'XNOR2'],
         3: ['AND3', 'NAND3', 'OR3', 'NOR3', 'XOR3', 'XNOR3', 'AO21', 'OA21', 'AOI21', 'OAI21', 'MUX21'],
         4: ['AND4', 'NAND4', 'OR4', 'NOR4', 'XOR4', 'XNOR4', 'AO22', 'OA22', 'AOI22', 'OAI22',
             'AO211', 'OA211', 'AOI211', 'OAI211']}
ALL_PRIMS = [k for a in (1, 2, 3, 4) for k in PRIMS[a]]
ARITY = {k: a for a in PRIMS for k in PRIMS[a]}
# alternative spellings accepted by the kind-prefix table of kyupy.sim (case-insensitive prefixes)
ALIASES = {'BUF1': ['buf', 'nbuf', 'BUF1'], 'INV1': ['not', 'inv', 'INV1', 'ibuf'],
           'AND2': ['and', 'AND2'], 'NAND2': ['nand', 'NAND2'], 'OR2': ['or', 'OR2', 'isolor'], 'NOR2': ['nor', 'NOR2'],
           'XOR2': ['xor', 'XOR2'], 'XNOR2': ['xnor', 'XNOR2']}


def kyupy_mods():
    from kyupy.circuit import Circuit, Node, Line
    return Circuit, Node, Line


def gen_circuit(rnd, style=None, max_gates=8, max_in=4, max_ff=2, open_pins=True, latches=True,
                aliases=True, dangling=True, branchforks=None, kinds=None, min_gates=1, max_out=3, scrambled=0.3):
    """A random well-formed circuit inside the domain of the simulators.

    style 'v': Verilog style (ports are 'input'/'output' cells with a fork behind them, optional branch forks);
    style 'b': bench style (ports are forks; an output fork may be read internally).
    Returns the Circuit.  Names: inputs i<k>, state ff<k>/lt<k>, gates g<k>, outputs o<k>."""
    Circuit, Node, Line = kyupy_mods()
    style = style or rnd.choice(['v', 'b'])
    c = Circuit('r')
    sig = []
    nin = rnd.randint(1, max_in)
    nff = rnd.randint(0, max_ff)
    ng = rnd.randint(min_gates, max_gates)
    bf = (style == 'v' and (rnd.random() < 0.5 if branchforks is None else branchforks))
    for i in range(nin):
        if style == 'v':
            p = Node(c, f'i{i}', 'input')
            c.io_nodes.append(p)
            f = Node(c, f'i{i}')
            Line(c, p, f)
        else:
            f = Node(c, f'i{i}')
            c.io_nodes.append(f)
        sig.append(f)
    ffs = []
    for i in range(nff):
        if latches and rnd.random() < 0.3:
            ff = Node(c, f'lt{i}', rnd.choice(['LATCH', 'latch']))
        else:
            ff = Node(c, f'ff{i}', rnd.choice(['DFF', 'dff']))
        ffs.append(ff)
        r = rnd.random()
        if r < 0.85:
            f = Node(c, ff.name)
            Line(c, (ff, 0), f)
            sig.append(f)
        if r > 0.5 or r >= 0.85:
            fq = Node(c, ff.name + 'n')
            Line(c, (ff, 1), fq)
            sig.append(fq)

    # constant (tie) cells as further signal sources: a buffer / inverter without any input
    if kinds is None and rnd.random() < 0.3:
        for i in range(rnd.randint(1, 2)):
            k = rnd.choice(['__const0__', '__const1__', 'TIEL', 'tieh'])
            n = Node(c, f'k{i}', k)
            f = Node(c, f'k{i}')
            Line(c, n, f)
            sig.append(f)

    def rd(f, node, pin=None):
        if bf:
            b = Node(c, f'{f.name}~{node.name}/{len(node.ins) if pin is None else pin}')
            Line(c, f, b)
            f = b
        Line(c, f, node if pin is None else (node, pin))

    menu = kinds or ALL_PRIMS
    for g in range(ng):
        k = rnd.choice(menu)
        ar = ARITY[k]
        kind = k
        if aliases and k in ALIASES and rnd.random() < 0.4:
            kind = rnd.choice(ALIASES[k])
        elif aliases and rnd.random() < 0.2:
            kind = k.lower()
        n = Node(c, f'g{g}', kind)
        pins = list(range(ar))
        if open_pins and ar >= 2 and rnd.random() < 0.15:
            pins.remove(rnd.choice(pins))       # leave one pin unconnected (reads constant 0)
        for j in pins:
            rd(rnd.choice(sig), n, j)
        if dangling and rnd.random() < 0.08 and g > 0:
            continue                            # output left unconnected
        f = Node(c, f'g{g}')
        Line(c, n, f)
        sig.append(f)
        if rnd.random() < 0.15:                 # an extra named fork stage (fork chain)
            f2 = Node(c, f'g{g}_s')
            Line(c, f, f2)
            sig.append(f2)
    for ff in ffs:
        rd(rnd.choice(sig), ff, 0)
        if rnd.random() < 0.3:
            rd(rnd.choice(sig), ff, 1)          # clock / enable pin (ignored by the simulators)
    nout = rnd.randint(1, max_out)
    cand = sig[nin:] if len(sig) > nin else sig
    for i in range(nout):
        s = rnd.choice(cand)
        if style == 'v':
            o = Node(c, f'o{i}', 'output')
            c.io_nodes.append(o)
            rd(s, o)
        else:
            if s not in c.io_nodes and '~' not in s.name:
                c.io_nodes.append(s)
    if rnd.random() < scrambled:
        c = scramble(rnd, c)
    return c


def scramble(rnd, c):
    """The same circuit with nodes and lines created in a random order (ports keep their order): indices, dictionary
    orders and the relative creation order of drivers and readers change, the netlist does not."""
    Circuit, Node, Line = kyupy_mods()
    c2 = Circuit(c.name)
    order = list(range(len(c.nodes)))
    rnd.shuffle(order)
    new = {}
    for i in order:
        n = c.nodes[i]
        new[i] = Node(c2, n.name, n.kind)
    lines = list(c.lines)
    rnd.shuffle(lines)
    # fork outputs must stay gap-free while being built: add the lines of every fork in pin order
    lines.sort(key=lambda l: (0, 0) if l.driver.kind != '__fork__' else (1, l.driver_pin))
    for l in lines:
        Line(c2, (new[l.driver.index], l.driver_pin), (new[l.reader.index], l.reader_pin))
    for n in c.io_nodes:
        c2.io_nodes.append(new[n.index])
    return c2


def layered_circuit(rnd, width, depth, kinds=('AND2', 'OR2', 'XOR2', 'NAND2', 'NOR2'), nout=4, fanout_hub=0):
    """A LARGE circuit (width x depth two-input gates, bench style): scale scenarios - counters, indices and reference
    counts beyond 8/16-bit ranges.  fanout_hub > 0: the first input additionally drives that many extra buffers."""
    Circuit, Node, Line = kyupy_mods()
    c = Circuit('layered')
    cur = []
    for i in range(width):
        f = Node(c, f'i{i}')
        c.io_nodes.append(f)
        cur.append(f)
    hub = cur[0]
    for d in range(depth):
        nxt = []
        for i in range(width):
            g = Node(c, f'g{d}_{i}', rnd.choice(kinds))
            Line(c, rnd.choice(cur), g)
            Line(c, rnd.choice(cur), g)
            f = Node(c, f'g{d}_{i}')
            Line(c, g, f)
            nxt.append(f)
        cur = nxt
    for i in range(fanout_hub):
        b = Node(c, f'hb{i}', 'BUF1')
        Line(c, hub, b)
        f = Node(c, f'hb{i}')
        Line(c, b, f)
        if i < 2:
            cur.append(f)
    for i in range(nout):
        o = Node(c, f'o{i}')
        Line(c, cur[-1 - i], o)
        c.io_nodes.append(o)
    return c


def parity_circuit(rnd, nin=None, style='v'):
    """Parity logic over many inputs: every input transition reaches the outputs, so waveforms get long and overflow
    small capacities.  Several taps of the chain are ports."""
    Circuit, Node, Line = kyupy_mods()
    c = Circuit('parity')
    nin = nin or rnd.randint(3, 6)
    sig = []
    for i in range(nin):
        if style == 'v':
            p = Node(c, 'i%d' % i, 'input'); c.io_nodes.append(p); f = Node(c, 'i%d' % i); Line(c, p, f)
        else:
            f = Node(c, 'i%d' % i); c.io_nodes.append(f)
        sig.append(f)
    acc = sig[0]
    taps = []
    g = 0
    rest = sig[1:]
    while rest:
        k = rnd.choice([1, 1, 2]) if len(rest) >= 2 else 1
        ops, rest = rest[:k], rest[k:]
        kind = rnd.choice(['XOR', 'XNOR']) + str(k + 1)
        n = Node(c, 'g%d' % g, kind)
        Line(c, acc, n)
        for o in ops:
            Line(c, o, n)
        acc = Node(c, 'g%d' % g); Line(c, n, acc)
        taps.append(acc)
        g += 1
    if rnd.random() < 0.5:
        ff = Node(c, 'ff0', 'DFF'); Line(c, acc, (ff, 0))
        q = Node(c, 'ff0'); Line(c, ff, q)
        n = Node(c, 'g%d' % g, 'XOR2'); Line(c, q, n); Line(c, taps[0], n)
        acc = Node(c, 'g%d' % g); Line(c, n, acc); taps.append(acc)
    for k, t in enumerate(rnd.sample(taps, min(len(taps), rnd.randint(1, 3))) + [acc]):
        if style == 'v':
            o = Node(c, 'o%d' % k, 'output'); c.io_nodes.append(o); Line(c, t, o)
        elif t not in c.io_nodes:
            c.io_nodes.append(t)
    return c


def one_of_each(style='v'):
    """A circuit instantiating every one of the 33 primitives once, each at its full arity."""
    Circuit, Node, Line = kyupy_mods()
    c = Circuit('all33')
    ins = []
    for i in range(4):
        if style == 'v':
            p = Node(c, f'i{i}', 'input')
            c.io_nodes.append(p)
            f = Node(c, f'i{i}')
            Line(c, p, f)
        else:
            f = Node(c, f'i{i}')
            c.io_nodes.append(f)
        ins.append(f)
    for k in ALL_PRIMS:
        n = Node(c, 'u_' + k, k)
        for j in range(ARITY[k]):
            Line(c, ins[j], (n, j))
        if style == 'v':
            f = Node(c, 'u_' + k)
            Line(c, n, f)
            o = Node(c, 'o_' + k, 'output')
            c.io_nodes.append(o)
            Line(c, f, o)
        else:
            f = Node(c, 'u_' + k)
            Line(c, n, f)
            c.io_nodes.append(f)
    return c


def rand_delays(rnd, c, datasets=1, vals=(0, 1, 2, 3), poldep=True, zero_fork_inputs=False, np=None):
    """Delay array [dataset, line, input polarity, output polarity] on an integer grid."""
    import numpy
    nl = len(c.lines)
    d = numpy.zeros((datasets, nl, 2, 2), dtype=numpy.float32)
    for ds in range(datasets):
        for l in range(nl):
            if poldep:
                for a in range(2):
                    for b in range(2):
                        d[ds, l, a, b] = rnd.choice(vals)
            else:
                d[ds, l] = rnd.choice(vals)
    if zero_fork_inputs:
        for f in c.forks.values():
            for l in f.ins:
                if l is not None:
                    d[:, l.index] = 0
    return d


def rand_heap_history(rnd, depth, sizes):
    """Abstract history: +s = alloc(s), -k = free the k-th live chunk (by address)."""
    h = []
    live = 0
    for _ in range(depth):
        if live and rnd.random() < 0.45:
            h.append(-rnd.randint(1, live))
            live -= 1
        else:
            h.append(rnd.choice(sizes))
            live += 1
    return h


def circuit_state(c):
    """JSON-able description of a circuit (for replay files), independent of pickle."""
    return dict(name=c.name, nodes=[[n.name, n.kind] for n in c.nodes],
                lines=[[l.driver.index, l.driver_pin, l.reader.index, l.reader_pin] for l in c.lines],
                io=[n.index for n in c.io_nodes])


def circuit_from_state(d):
    Circuit, Node, Line = kyupy_mods()
    c = Circuit(d.get('name'))
    for name, kind in d['nodes']:
        Node(c, name, kind)
    for a, ap, b, bp in d['lines']:
        Line(c, (c.nodes[a], ap), (c.nodes[b], bp))
    for i in d['io']:
        c.io_nodes.append(c.nodes[i])
    return c


def digest(obj):
    import hashlib, json
    return hashlib.sha1(json.dumps(obj, sort_keys=True, default=str).encode()).hexdigest()[:12]
