"""C14 - Every SDF delay lands on the right line, polarity and dataset - none is lost.

(T) abstract SDF files (IOPATH / INTERCONNECT entries with distinct values, edge qualifiers, empty triples, single
    value lists, missing fields) over circuits parsed from rendered Verilog (both branchforks settings) are rendered
    with random groupings into CELL blocks (repeated blocks per instance, several top-level blocks, several DELAY
    sections per block, TIMINGCHECK blocks in between, escaped names), parsed with the REAL parser; the arrays
    returned by iopaths()/interconnects() are compared as a whole by TLC with the fold of the entries through the
    annotation rules of SdfT.tla.
"""
import random

import numpy as np

from .core import Check, MachineryError, import_kyupy
from . import gen, nets, hdl, c10, c11
from .project import project

PID = 'C14'


def triple_txt(rnd, vals):
    """vals: 3 ints in 1/8 units or None (empty triple)."""
    if vals is None:
        return rnd.choice(['()', '( )'])

    def f(v):
        return ('%g' % (v / 8.0)) if v else rnd.choice(['0', '0.0', ''])
    return '(%s:%s:%s)' % tuple(f(v) for v in vals)


def make_case(rnd, lname, tlib, bf):
    from kyupy import verilog, sdf
    mod = hdl.random_hdl_module(rnd, tlib, c11.MENU[lname])
    text = hdl.render_verilog(mod, random.Random(rnd.randrange(1 << 30)))
    c = verilog.parse(text, tlib=tlib, branchforks=bf)
    noforks = (not bf) and rnd.random() < 0.25
    if noforks:
        # cells wired directly to cells and ports (the named forks are gone): a line - also line 0 - feeds a cell pin
        # directly; only IOPATH entries make sense here
        c.eliminate_1to1_forks()
    st = project(c)
    idx = {n.name: n.index for n in c.nodes if n.kind != '__fork__'}
    nextv = [8]

    def val():
        nextv[0] += rnd.choice([1, 3, 8])
        return nextv[0]

    def vals(allow_empty=True):
        r = rnd.random()
        if allow_empty and r < 0.12:
            return None
        t = [val(), val(), val()]
        if r < 0.25:
            t[rnd.randrange(3)] = 0
        return t
    ents = []          # (owner, text, record)
    readers = {}
    for kind, iname, pm in mod['insts']:
        for p, s in pm.items():
            if not tlib.pin_is_output(kind, p) and not s.startswith("1'b"):
                readers.setdefault(s, []).append((iname, p, kind))
    for tgt, src in mod['assigns']:
        if not src.startswith("1'b"):
            readers.setdefault(src, []).append((tgt, None, None))
    for kind, iname, pm in mod['insts']:
        outs = [p for p in pm if tlib.pin_is_output(kind, p)]
        allouts = [p for p, (i, o) in tlib.cells[kind][1].items() if o]
        allins = [p for p, (i, o) in tlib.cells[kind][1].items() if not o]
        for p in allins:                     # pins the netlist leaves unconnected get entries too: nothing to annotate, nothing lost
            if (p not in pm and rnd.random() < 0.5) or rnd.random() < 0.25:
                continue
            mode = rnd.choice(['none', 'none', 'pos', 'neg', 'both'])
            for edge in {'none': [''], 'pos': ['posedge'], 'neg': ['negedge'], 'both': ['posedge', 'negedge']}[mode]:
                o = rnd.choice(allouts) if allouts else 'Z'
                r = vals()
                single = rnd.random() < 0.2
                f = r if single else vals()
                ip = ('(%s %s)' % (edge, p)) if edge else p
                txt = '(IOPATH %s %s %s%s)' % (ip, o, triple_txt(rnd, r), '' if single else ' ' + triple_txt(rnd, f))
                ents.append((iname, txt, dict(io=True, noline=p not in pm, inst=idx[iname], pin=tlib.pin_index(kind, p), edge=edge or 'none',
                                              r=r or [0, 0, 0], f=f or [0, 0, 0], **{'from': 0, 'fpin': 0, 'to': 0, 'tpin': 0})))
    # interconnects: driver endpoint -> reader endpoint over one signal
    drivers = {}
    for d, base, rng in mod['ports']:
        if d == 'input':
            for b in hdl.bits_of((d, base, rng)):
                drivers[b] = (b, None, None)
    for kind, iname, pm in mod['insts']:
        for p, s in pm.items():
            if tlib.pin_is_output(kind, p):
                drivers[s] = (iname, p, kind)
    for s, rds in readers.items():
        if s not in drivers or noforks:
            continue
        dn, dp, dk = drivers[s]
        nread = len(rds)
        for (rn, rp, rk) in rds:
            if rnd.random() < 0.4:
                continue
            noline = False
            if rp is not None and not bf and nread != 1:
                if rnd.random() < 0.6:
                    continue
                noline = True       # no branch fork and fan-out: documented warning, nothing may be annotated (the model agrees: -1)
            if rp is None and rn not in idx:
                continue
            r, f = vals(), vals()                # empty triples read as 0 here too
            a = dn if dp is None else '%s/%s' % (dn, dp)
            b = rn if rp is None else '%s/%s' % (rn, rp)
            esc = lambda x: x.replace('$', '\\$').replace('[', '\\[').replace(']', '\\]') if rnd.random() < 0.5 else x      # escaped special characters, as SDF writers emit them
            txt = '(INTERCONNECT %s %s %s %s)' % (esc(a), esc(b), triple_txt(rnd, r), triple_txt(rnd, f))
            ents.append((None, txt, dict(io=False, noline=noline, inst=0, pin=0, edge='none', r=r or [0, 0, 0], f=f or [0, 0, 0], **{'from': idx[dn], 'fpin': 0 if dp is None else tlib.pin_index(dk, dp),
                                                                                          'to': idx[rn], 'tpin': 0 if rp is None else tlib.pin_index(rk, rp)})))
    # interconnects that name a pin without a line (unconnected input pin, unused output pin): nothing to annotate
    for kind, iname, pm in mod['insts']:
        pins = tlib.cells[kind][1]
        for p, (pi, po) in pins.items():
            if p in pm or rnd.random() < 0.5 or not drivers or noforks:
                continue
            r, f = vals(), vals()
            if po:
                tgt = [(rn, rp, rk) for rds in readers.values() for (rn, rp, rk) in rds if rp is not None]
                if not tgt: continue
                rn, rp, rk = rnd.choice(tgt)
                a, b = '%s/%s' % (iname, p), '%s/%s' % (rn, rp)
                e = {'from': idx[iname], 'fpin': pi, 'to': idx[rn], 'tpin': tlib.pin_index(rk, rp)}
            else:
                dn, dp, dk = drivers[rnd.choice(sorted(drivers))]
                a, b = dn if dp is None else '%s/%s' % (dn, dp), '%s/%s' % (iname, p)
                e = {'from': idx[dn], 'fpin': 0 if dp is None else tlib.pin_index(dk, dp), 'to': idx[iname], 'tpin': pi}
            ents.append((None, '(INTERCONNECT %s %s %s %s)' % (a, b, triple_txt(rnd, r), triple_txt(rnd, f)),
                         dict(io=False, noline=True, inst=0, pin=0, edge='none', r=r or [0, 0, 0], f=f or [0, 0, 0], **e)))
    rnd.shuffle(ents)
    # grouping into CELL blocks: consecutive entries of the same owner may or may not share a block
    blocks = []
    for owner, txt, e in ents:
        if blocks and blocks[-1][0] == owner and rnd.random() < 0.6:
            blocks[-1][1].append(txt)
        else:
            blocks.append((owner, [txt]))
    kinds = {iname: kind for kind, iname, _ in mod['insts']}
    out = ['(DELAYFILE\n (SDFVERSION "3.0")\n (DESIGN "%s")\n (TIMESCALE 1ns)\n' % mod['name']]
    for owner, txts in blocks:
        inst = '(INSTANCE)' if owner is None else '(INSTANCE %s)' % (owner.replace('$', '\\$') if rnd.random() < 0.5 else owner)
        ct = mod['name'] if owner is None else kinds[owner]
        body = ''
        k = rnd.randint(1, len(txts)) if rnd.random() < 0.3 else len(txts)
        parts = [txts[:k], txts[k:]] if k < len(txts) else [txts]
        for j, part in enumerate(parts):
            if j == 1 and rnd.random() < 0.5 and owner is not None:
                body += '  (TIMINGCHECK (SETUP D (posedge CK) (0.1:0.1:0.1)))\n'
            body += '  (DELAY (ABSOLUTE\n   ' + '\n   '.join(part) + '\n  ))\n'
        out.append(' (CELL (CELLTYPE "%s") %s\n%s )\n' % (ct, inst, body))
    out.append(')\n')
    sdf_text = ''.join(out)
    rec = dict(st=st, ents=[e for _, _, e in ents], gotio=[], gotic=[], raised=False)
    try:
        df = sdf.parse(sdf_text)
        if rnd.random() < 0.35:
            # the parsed file is used more than once (another annotation pass, the same design again): every use gives the same arrays
            df.iopaths(c, tlib)
            if df._interconnects is not None: df.interconnects(c, tlib)
        io = np.asarray(df.iopaths(c, tlib)) * 8
        ic = np.asarray(df.interconnects(c, tlib)) * 8 if any(not e['io'] for e in rec['ents']) or df._interconnects is not None else np.zeros_like(io)
        for a in (io, ic):
            if not np.all(a == np.round(a)):
                raise ValueError('annotated value is not one of the file values')
        rec['gotio'] = np.round(io).astype(int).tolist()
        rec['gotic'] = np.round(ic).astype(int).tolist()
    except Exception as e:
        rec['raised'] = True
        rec['err'] = repr(e)[:300]
    return rec, dict(verilog=text, sdf=sdf_text, lib=lname, bf=bf)


def main(tier=None, replay=None):
    ck = Check(PID, tier)
    import_kyupy()
    rnd = random.Random(ck.seed + 14)
    L = c10.libs()
    recs, metas = [], []
    for t in range(ck.pick(220, 2500)):
        lname = rnd.choice(['NANGATE', 'NANGATE', 'SAED32', 'GSC180'])
        rec, mt = make_case(rnd, lname, L[lname], bf=rnd.random() < 0.6)
        if rec['ents']:
            recs.append(rec)
            metas.append(mt)
    if replay:
        import json
        ck.is_replay = True
        want = json.load(open(replay))['case']['digest']
        sel = [i for i, m in enumerate(metas) if gen.digest(m) == want]
        recs, metas = [recs[i] for i in sel], [metas[i] for i in sel]
    r = ck.tlc_batch('SdfT', 'SdfT', traces=recs, label='T:SdfT', per_shard=60, timeout=1500)
    ck.require_clean(r)
    ck.traces += len(recs)
    ck.evaluations += sum(len(x['ents']) for x in recs)
    mach = []
    for pid, tid, _, clause in r.fails:
        if pid == 'MACHINERY':
            mach.append(tid)
            continue
        x, mt = recs[tid - 1], metas[tid - 1]
        ck.violation('%s:%s' % (clause, gen.digest(mt)), '%s fails (%s, branchforks=%s, %d entries) %s' % (clause, mt['lib'], mt['bf'], len(x['ents']), x.get('err', '')),
                     dict(kind='sdf', digest=gen.digest(mt), clause=clause, verilog=mt['verilog'], sdf=mt['sdf']))
    if mach and not ck.violations:
        raise MachineryError('generator and model disagree on which SDF entries have a line to land on (case %d)' % mach[0])
    for x, mt in zip(recs, metas):
        ck.count('entries-naming-unconnected-pins', sum(1 for e in x['ents'] if e['noline']))
        ck.nontrivial.add(gen.digest(mt))
        ck.count('iopath-entries', sum(1 for e in x['ents'] if e['io']))
        ck.count('interconnect-entries', sum(1 for e in x['ents'] if not e['io']))
        ck.count('edge-qualified', sum(1 for e in x['ents'] if e['edge'] != 'none'))
        ck.count('files-with-repeated-blocks', 1 if len(set(l for l in mt['sdf'].split('\n') if 'INSTANCE' in l)) < mt['sdf'].count('INSTANCE') else 0)
        ck.count('branchforks' if mt['bf'] else 'no-branchforks')
    ck.need_cover(['entries-naming-unconnected-pins', 'iopath-entries', 'interconnect-entries', 'edge-qualified', 'files-with-repeated-blocks', 'branchforks', 'no-branchforks'])
    ck.sample(dict(sdf_text=metas[0]['sdf'], entries=recs[0]['ents'][:3]))
    ck.assumptions += ['interconnect entries between connected pins only where a branch fork or a sole reader exists (otherwise the code documents a warning); entries naming unconnected pins are expected to annotate nothing',
                       'no two entries write the same array cell (the statement defines no precedence)', 'values are multiples of 1/8 (exact in floating point)',
                       'the SDF/Verilog renderers of the harness (trusted); TLC, JSON reader, projection']
    return ck.finish('seeded random modules (parsed from rendered Verilog, both branchforks settings, three libraries) x abstract SDF entry lists x random '
                     'groupings into CELL blocks; entries naming unconnected pins and fan-out stems, circuits after fork elimination; whole-array comparison; distinct by (verilog text, sdf text)')
