"""X01 - behaviour beyond the listed properties (not registered in MANIFEST.json; informational).

Latch and transition operators of kyupy.logic in both storage formats against Logic.Latch8 / Logic.Transition on every
operand tuple; the 4-/8-valued state transfer between clock cycles.  Differences are printed as EXTRA lines; the exit code is always 0 unless the machinery fails.
"""
import itertools

import numpy as np

from .core import Check, import_kyupy


def main(tier=None, replay=None):
    ck = Check('X01', tier)
    import_kyupy()
    from kyupy import logic
    recs = []
    for d, t, q in itertools.product(range(8), repeat=3):
        a = [np.array([v], dtype=np.uint8) for v in (d, t, q)]
        recs.append(dict(fn='mv_latch', ins=[d, t, q], res=int(logic.mv_latch(*a)[0])))
        bp = [logic.mv_to_bp(x) for x in a]
        out = np.zeros_like(bp[0])
        logic.bp8v_latch(out, *bp)
        recs.append(dict(fn='bp8v_latch', ins=[d, t, q], res=int(logic.bp_to_mv(out)[0, 0])))
    for i, f in itertools.product(range(8), repeat=2):
        recs.append(dict(fn='mv_transition', ins=[i, f], res=int(logic.mv_transition(np.array([i], dtype=np.uint8), np.array([f], dtype=np.uint8))[0])))
    # state transfer between clock cycles in 4- and 8-valued mode (LogicSim.s_ppo_to_ppi): per state element the new
    # assignment as a function of (old assignment, captured value)
    from kyupy import bench
    from kyupy.logic_sim import LogicSim
    c = bench.parse('input(a) output(z) q=DFF(a) z=buf(q)')
    k = [n.name for n in c.s_nodes].index('q')
    for m, vals in ((4, range(4)), (8, range(8))):
        pairs = list(itertools.product(vals, repeat=2))
        sim = LogicSim(c, sims=len(pairs), m=m)
        old = np.zeros((len(c.s_nodes), len(pairs)), dtype=np.uint8)
        cap = np.zeros_like(old)
        old[k] = [a for a, _ in pairs]
        cap[k] = [b for _, b in pairs]
        sim.s[0] = logic.mv_to_bp(old)
        sim.s[1] = logic.mv_to_bp(cap)
        sim.s_ppo_to_ppi()
        new = logic.bp_to_mv(sim.s[0])[k, :len(pairs)] & (3 if m == 4 else 7)
        for (a, b), v in zip(pairs, new):
            recs.append(dict(fn='ppo_to_ppi%d' % m, ins=[a, b], res=int(v)))
    r = ck.tlc_batch('ExtrasT', 'ExtrasT', traces=recs, label='T:ExtrasT', per_shard=400)
    ck.require_clean(r)
    ck.traces += len(recs)
    ck.evaluations += len(recs)
    diffs = [i for i in r.infos if i and i[0] == 'extra']
    by = {}
    for i in diffs:
        by.setdefault(i[2], []).append((i[3], i[4]))
    for fn, lst in by.items():
        print('EXTRA %s: %d of the operand tuples differ from the specification, e.g. operands %s -> %s' % (fn, len(lst), lst[0][0], lst[0][1]))
    ck.extra['differences'] = {fn: len(v) for fn, v in by.items()}
    ck.sample(recs[100])
    for x in recs:
        ck.nontrivial.add(str(x['fn']) + str(x['ins']))
    return ck.finish('all 512 operand triples of the latch operators (array and bit-parallel form) and all 64 pairs of mv_transition; all (old assignment, captured value) pairs of the 4- and 8-valued state transfer')
