"""X01 - behaviour beyond the listed properties (not registered in MANIFEST.json; informational).

Latch and transition operators of kyupy.logic in both storage formats against Logic.Latch8 / Logic.Transition on every
operand tuple.  Differences are printed as EXTRA lines; the exit code is always 0 unless the machinery fails.
"""
import itertools

import numpy as np

from .core import Check, import_kyupy


def main(tier=None, replay=None):
    ck = Check('X01', tier)
    import_kyupy()
    from kyupy import logic
    recs = []
    for d, t, q in itertools.product(range(8), repeat=3):
        a = [np.array([v], dtype=np.uint8) for v in (d, t, q)]
        recs.append(dict(fn='mv_latch', ins=[d, t, q], res=int(logic.mv_latch(*a)[0])))
        bp = [logic.mv_to_bp(x) for x in a]
        out = np.zeros_like(bp[0])
        logic.bp8v_latch(out, *bp)
        recs.append(dict(fn='bp8v_latch', ins=[d, t, q], res=int(logic.bp_to_mv(out)[0, 0])))
    for i, f in itertools.product(range(8), repeat=2):
        recs.append(dict(fn='mv_transition', ins=[i, f], res=int(logic.mv_transition(np.array([i], dtype=np.uint8), np.array([f], dtype=np.uint8))[0])))
    r = ck.tlc_batch('ExtrasT', 'ExtrasT', traces=recs, label='T:ExtrasT', per_shard=400)
    ck.require_clean(r)
    ck.traces += len(recs)
    ck.evaluations += len(recs)
    diffs = [i for i in r.infos if i and i[0] == 'extra']
    by = {}
    for i in diffs:
        by.setdefault(i[2], []).append((i[3], i[4]))
    for fn, lst in by.items():
        print('EXTRA %s: %d of the operand tuples differ from the specification, e.g. operands %s -> %s' % (fn, len(lst), lst[0][0], lst[0][1]))
    ck.extra['differences'] = {fn: len(v) for fn, v in by.items()}
    ck.sample(recs[100])
    for x in recs:
        ck.nontrivial.add(str(x['fn']) + str(x['ins']))
    return ck.finish('all 512 operand triples of the latch operators (array and bit-parallel form) and all 64 pairs of mv_transition')
