"""C10 - Copy, pickle, fork elimination and cell substitution preserve function.

(T) recorded applications of the real transformations are judged by TransformT.tla: the transparent / hierarchical
    meaning of the netlist before (a library cell means its implementation, pin by pin) equals the meaning after,
    over ALL assignments of input ports and state elements; names and order of ports and state elements are kept;
    resolving raises nothing.  Cases: every cell of all five built-in libraries x connected-pin patterns; random
    modules over library cells and random primitive circuits x compositions of copy, pickle, eliminate_1to1_forks,
    substitute (7 implementation shapes) and resolve_tlib_cells.
"""
import pickle
import random

from .core import Check, MachineryError, import_kyupy
from . import gen, nets, c09

PID = 'C10'


def libs():
    from kyupy import techlib
    return dict(GSC180=techlib.GSC180, NANGATE=techlib.NANGATE, NANGATE_ZN=techlib.NANGATE_ZN, SAED32=techlib.SAED32, SAED90=techlib.SAED90)


def cell_host(tlib, kind, conn_in, conn_out):
    """Verilog-style host with one instance u1 of `kind`; only the listed pins are connected."""
    from kyupy.circuit import Circuit, Node, Line
    pins = tlib.cells[kind][1]
    c = Circuit('host')
    u = Node(c, 'u1', kind)
    for p in conn_in:
        pi = Node(c, 'p_' + p, 'input')
        c.io_nodes.append(pi)
        f = Node(c, 'p_' + p)
        Line(c, pi, f)
        Line(c, f, (u, pins[p][0]))
    for p in conn_out:
        po = Node(c, 'q_' + p, 'output')
        c.io_nodes.append(po)
        f = Node(c, 'q_' + p)
        Line(c, (u, pins[p][0]), f)
        Line(c, f, po)
    return c


def pin_patterns(ins, outs):
    pats = [('all', ins, outs), ('no-inputs', [], outs), ('alternating', ins[0::2], outs[1::2] or outs[:1])]
    if outs:
        pats.append(('no-outputs', ins, []))
    for p in ins:
        pats.append(('open-' + p, [x for x in ins if x != p], outs))
    for p in outs:
        if len(outs) > 1:
            pats.append(('open-' + p, ins, [x for x in outs if x != p]))
    return pats


def record(before_c, after_fn, lib, seq_kinds, what, resolve=False):
    rec = dict(pid='C10', what=what, lib=lib, raised=False, resolve=resolve, onlyforks=False)
    rec['before'] = nets.struct_t(before_c, seq_kinds)
    try:
        after_c = after_fn(before_c)
        rec['after'] = nets.struct_t(after_c, seq_kinds)
    except Exception as e:
        rec['raised'] = True
        rec['err'] = repr(e)[:300]
        rec['after'] = rec['before']
        after_c = None
    return rec, after_c


def library_records(ck):
    recs = []
    for lname, tlib in libs().items():
        seen = {}
        for kind, (impl, pins) in tlib.cells.items():
            ins = sorted([p for p, (i, o) in pins.items() if not o], key=lambda p: pins[p][0])
            outs = sorted([p for p, (i, o) in pins.items() if o], key=lambda p: pins[p][0])
            first = id(impl) not in seen
            seen[id(impl)] = 1
            lib = nets.lib_structs(tlib, [kind])
            sk = nets.seq_kinds_of(tlib, [kind])
            pats = pin_patterns(ins, outs) if first else [('all', ins, outs)]
            for pname, ci, co in pats:
                host = cell_host(tlib, kind, ci, co)

                def tf(c, tlib=tlib):
                    c2 = c.copy()
                    c2.resolve_tlib_cells(tlib)
                    return c2
                rec, _ = record(host, tf, lib, sk, 'resolve:%s:%s:%s' % (lname, kind, pname), resolve=True)
                recs.append(rec)
    return recs


def composition_records(ck, rnd, n):
    from kyupy import bench
    recs = []
    L = libs()
    menu = {'NANGATE': ['AND2_X1', 'NOR3_X1', 'AOI21_X1', 'OAI211_X1', 'MUX2_X1', 'FA_X1', 'HA_X1', 'DFF_X1', 'SDFF_X1', 'INV_X1', 'XOR2_X1',
                        'AOI222_X1', 'TBUF_X1', 'DLH_X1', 'LOGIC1_X1', 'FILLCELL_X1', 'CLKGATE_X1'],
            'SAED32': ['AO221X1_RVT', 'MUX41X1_RVT', 'DEC24X1_RVT', 'FADDX1_RVT', 'DFFX1_RVT', 'NAND2X0_RVT', 'ISOLANDX1_RVT', 'LATCHX1_RVT',
                       'HEADX2_RVT', 'TIEH_RVT', 'OR3X1_RVT', 'SDFFASRSX1_RVT'],
            'GSC180': ['ADDFX1', 'OAI33X1', 'MX2X1', 'DFFSRX1', 'TLATX1', 'NAND4X1', 'TINVX1']}
    for t in range(n):
        lname = rnd.choice(list(menu))
        tlib = L[lname]
        kinds = menu[lname]
        mod = nets.random_module(rnd, tlib, kinds, n_in=rnd.randint(1, 3), n_out=rnd.randint(1, 2), n_inst=rnd.randint(1, 4))
        used = sorted({k for k, _, _ in mod['insts']})
        sk = nets.seq_kinds_of(tlib, used)
        c0 = nets.build_module(mod, tlib, branchforks=rnd.random() < 0.4)
        if nets.n_sources(nets.struct_t(c0, sk), sk) > 7:
            continue
        lib = nets.lib_structs(tlib, used)
        steps = rnd.sample(['copy', 'pickle', 'elim', 'resolve', 'elim', 'copy'], rnd.randint(2, 5))
        cur = c0
        for s in steps:
            inplace = rnd.random() < 0.5       # transform the very object the previous step returned (a copy, an unpickled circuit)

            def tf(c, s=s, tlib=tlib, inplace=inplace):
                if s == 'copy':
                    return c.copy()
                if s == 'pickle':
                    return pickle.loads(pickle.dumps(c))
                c2 = c if (inplace and c is not c0) else c.copy()
                if s == 'elim':
                    c2.eliminate_1to1_forks()
                else:
                    c2.resolve_tlib_cells(tlib)
                return c2
            rec, nxt = record(cur, tf, lib, sk, 'module:%s:%s:%s' % (lname, s, gen.digest(mod)), resolve=(s == 'resolve'))
            recs.append(rec)
            if nxt is None:
                break
            cur = nxt
        if cur is not c0 and not recs[-1]['raised']:
            rec, _ = record(c0, lambda c, cur=cur: cur, lib, sk, 'module:%s:composition%s:%s' % (lname, '+elim' if 'elim' in steps else '', gen.digest(mod)))
            recs.append(rec)
    # scale: a signal with more than 256 readers (pin positions beyond 8 bits) carried through copy and pickle
    for t in range(max(1, n // 150)):
        c0 = gen.layered_circuit(rnd, 3, 2, fanout_hub=rnd.randint(257, 300))
        for s in ('pickle', 'copy'):
            rec, _ = record(c0, (lambda c: pickle.loads(pickle.dumps(c))) if s == 'pickle' else (lambda c: c.copy()), {}, set(),
                            'module:primitive:%s:hub%d:%s' % (s, len(c0.nodes), gen.digest(gen.circuit_state(c0))))
            recs.append(rec)
    # primitive circuits with substitute of hand-made implementations (shapes of c09.IMPL_SRC)
    impls = c09.impls()
    for t in range(n):
        c0 = gen.gen_circuit(rnd, max_gates=5, max_in=3, max_ff=1, open_pins=False, dangling=False, aliases=False)
        k = rnd.randrange(len(impls))
        im = impls[k]
        nin = sum(1 for x in im.io_nodes if len(x.ins) == 0)
        nout = sum(1 for x in im.io_nodes if len(x.ins) > 0)
        ios = set(id(x) for x in c0.io_nodes)
        cand = [x for x in c0.nodes if x.kind != '__fork__' and id(x) not in ios and nets.seq_flag(x.kind) == 0 and len(x.ins) <= nin and len(x.outs) <= nout]
        if not cand:
            continue
        tgt = rnd.choice(cand)
        kname = 'IMPL%d' % k
        tgt.kind = kname            # the host now holds an instance of the implementation
        sk = {kname} if any(nets.seq_flag(x.kind) for x in im.nodes) else set()
        lib = {kname: nets.struct_t(im)}
        if nets.n_sources(nets.struct_t(c0, sk), sk) > 7:
            continue

        def tf(c, name=tgt.name, im=im):
            c2 = c.copy()
            c2.substitute(c2.cells[name], im)
            return c2
        rec, nxt = record(c0, tf, lib, sk, 'substitute:IMPL%d:%s' % (k, gen.digest(gen.circuit_state(c0))), resolve=True)
        recs.append(rec)
        if nxt is not None:
            def tf2(c):
                c2 = pickle.loads(pickle.dumps(c))
                c2.eliminate_1to1_forks()
                return c2
            rec, _ = record(nxt, tf2, lib, sk, 'substitute:IMPL%d:then-pickle-elim:%s' % (k, gen.digest(gen.circuit_state(c0))))
            recs.append(rec)
    return recs


def kind_of(what):
    p = what.split(':')
    k = p[2] if p[0] == 'module' else ('pickle-elim' if 'then-pickle-elim' in what else p[0])
    # (substitute() and resolve_tlib_cells() are one call site: resolve calls substitute for every library cell)
    return 'eliminate_1to1_forks' if 'elim' in k else 'resolve' if k in ('resolve', 'substitute') else k


def fixed_cases():
    """Deterministic regression cases (always part of the run)."""
    from kyupy.circuit import Circuit, Node, Line
    from kyupy import techlib
    tlib = techlib.NANGATE
    c = Circuit('fixed')
    a = Node(c, 'a', 'input'); c.io_nodes.append(a)
    fa = Node(c, 'a'); Line(c, a, fa)
    u1 = Node(c, 'u1', 'DFF_X1'); Line(c, fa, (u1, 0))
    q1 = Node(c, 'q1'); Line(c, (u1, 0), q1)
    u2 = Node(c, 'u2', 'DFF_X1'); Line(c, q1, (u2, 0))
    q2 = Node(c, 'q2'); Line(c, (u2, 0), q2)
    z = Node(c, 'z', 'output'); c.io_nodes.append(z); Line(c, q2, z)
    u3 = Node(c, 'u3', 'DFF_X1'); Line(c, q2, (u3, 0))
    lib = nets.lib_structs(tlib, ['DFF_X1'])

    def tf(cc):
        c2 = cc.copy()
        c2.eliminate_1to1_forks()
        return c2
    rec, _ = record(c, tf, lib, {'DFF_X1'}, 'module:NANGATE:elim:fixed-three-flip-flops')
    # the same root cause through resolve_tlib_cells(): a cell with an empty implementation (filler) is removed, the last
    # node (a flip-flop) takes its index
    c2 = Circuit('fixed2')
    a = Node(c2, 'a', 'input'); c2.io_nodes.append(a)
    fa = Node(c2, 'a'); Line(c2, a, fa)
    Node(c2, 'fill0', 'FILLCELL_X1')
    u1 = Node(c2, 'u1', 'DFF_X1'); Line(c2, fa, (u1, 0))
    q1 = Node(c2, 'q1'); Line(c2, (u1, 0), q1)
    z = Node(c2, 'z', 'output'); c2.io_nodes.append(z); Line(c2, q1, z)
    u2 = Node(c2, 'u2', 'DFF_X1'); Line(c2, q1, (u2, 0))
    lib2 = nets.lib_structs(tlib, ['DFF_X1', 'FILLCELL_X1'])

    def tf2(cc):
        c3 = cc.copy()
        c3.resolve_tlib_cells(tlib)
        return c3
    rec2, _ = record(c2, tf2, lib2, {'DFF_X1', 'FILLCELL_X1'}, 'module:NANGATE:resolve:fixed-filler-before-flip-flops')
    return [rec, rec2]


def judge(ck, recs):
    r = ck.tlc_batch('TransformT', 'TransformT', traces=recs, label='T:TransformT', per_shard=40, timeout=1700)
    ck.require_clean(r)
    ck.traces += len(recs)
    ck.evaluations += r.distinct
    insane = [recs[tid - 1]['what'] for pid, tid, a, clause in r.fails if pid == 'MACHINERY']
    for pid, tid, a, clause in r.fails:
        rec = recs[tid - 1]
        if pid == 'MACHINERY':
            continue
        # a change of the ORDER of state elements is identified by the transformation (call site), everything else by the case
        key = '%s:%s' % (clause, kind_of(rec['what']) if clause == 'StateOrderKept' else rec['what'])
        ck.violation(key, '%s fails for %s (assignment %d) %s' % (clause, rec['what'], a, rec.get('err', '')),
                     dict(kind='transform', what=rec['what'], clause=clause, assignment=a))


    if insane and not ck.violations:     # (a corrupted result of an earlier step of a composition is reported by that step)
        raise MachineryError('record %s is not sane for the specification' % insane[0])


def main(tier=None, replay=None):
    ck = Check(PID, tier)
    import_kyupy()
    rnd = random.Random(ck.seed + 10)
    recs = fixed_cases() + library_records(ck) + composition_records(ck, rnd, ck.pick(120, 900))
    if replay:
        import json
        ck.is_replay = True
        want = json.load(open(replay))['case']['what']
        recs = [x for x in recs if x['what'] == want]
    judge(ck, recs)
    for x in recs:
        ck.count(x['what'].split(':')[0] + (':' + x['what'].split(':')[2] if x['what'].startswith('module') else ''))
        ck.nontrivial.add(x['what'])
    ck.count('library-cells', len({x['what'].split(':')[1] + x['what'].split(':')[2] for x in recs if x['what'].startswith('resolve')}))
    ck.need_cover(['resolve', 'module:copy', 'module:pickle', 'module:elim', 'module:resolve', 'substitute'])
    ck.sample(dict(case=recs[3]['what'], before_nodes=recs[3]['before']['nodes'][:4], after_nodes=recs[3]['after']['nodes'][:4]))
    ck.assumptions += ['ports with a driver are ordinary signals (transparent meaning), sources are input ports and state elements',
                       'an instance pin left unconnected reads 0 / is unobserved', 'at most 7 sources per case (all 2^n assignments enumerated)',
                       'TLC, JSON reader, harness projection and its topological order (checked)']
    ck.extra['exhaustive'] = False
    return ck.finish('every cell name of GSC180/NANGATE/NANGATE_ZN/SAED32/SAED90 in a one-instance host x connected-pin patterns (all, none, '
                     'alternating, each single pin open; distinct implementations get all patterns); random modules over library cells and random '
                     'primitive circuits x compositions of copy, pickle, eliminate, substitute, resolve; all assignments of each case; distinct by case name')
