"""Projection of a live kyupy Circuit onto the abstract structure record used by all specifications.

Reads only documented public attributes.  Open pins are -1.  Everything is an int, a string or a list
(TLC's JSON reader rejects null and floats)."""


def project(c, full=False):
    """structure record: nodes (name, kind, ins, outs as line indices), lines (drv, dpin, rdr, rpin), io, snodes."""
    idx = {id(n): i for i, n in enumerate(c.nodes)}
    lidx = {id(l): i for i, l in enumerate(c.lines)}
    nodes = []
    for n in c.nodes:
        rec = dict(name=n.name, kind=n.kind,
                   ins=[lidx.get(id(l), -2) if l is not None else -1 for l in n.ins],
                   outs=[lidx.get(id(l), -2) if l is not None else -1 for l in n.outs])
        if full:
            rec['idx'] = int(n.index)
        nodes.append(rec)
    lines = []
    for l in c.lines:
        rec = dict(drv=idx.get(id(l.driver), -2), dpin=int(l.driver_pin), rdr=idx.get(id(l.reader), -2), rpin=int(l.reader_pin))
        if full:
            rec['idx'] = int(l.index)
        lines.append(rec)
    st = dict(nodes=nodes, lines=lines, io=[idx.get(id(n), -2) for n in c.io_nodes],
              snodes=[idx.get(id(n), -2) for n in c.s_nodes])
    if full:
        st['cells'] = sorted([[k, idx.get(id(v), -2)] for k, v in c.cells.items()])
        st['forks'] = sorted([[k, idx.get(id(v), -2)] for k, v in c.forks.items()])
        st['stats'] = sorted([[k, int(v)] for k, v in c.stats.items()])
    return st


def is_state(kind):
    k = kind.lower()
    return 'dff' in k or 'latch' in k


def topo(st):
    """The harness' own topological order of a structure record (independent of kyupy's traversal):
    state elements and ports (snodes) and nodes without connected inputs are sources.  The specification
    checks the order (TopoOK) before using it."""
    nodes, lines = st['nodes'], st['lines']
    sn = set(st['snodes'])
    n = len(nodes)
    need = []
    for i, nd in enumerate(nodes):
        need.append(0 if i in sn else sum(1 for x in nd['ins'] if x >= 0))
    ready = [i for i in range(n) if need[i] == 0]
    order = []
    seen = set()
    while ready:
        i = ready.pop(0)
        if i in seen:
            continue
        seen.add(i)
        order.append(i)
        for x in nodes[i]['outs']:
            if x >= 0:
                r = lines[x]['rdr']
                if r in sn:
                    continue
                need[r] -= 1
                if need[r] == 0:
                    ready.append(r)
    return order


def topo_natural(st):
    """Topological order when a port that has a driver is an ordinary signal (only undriven ports and state elements are
    sources) - for the clause that judges driven ports under the plain reading of "evaluate the netlist gate by gate"."""
    nodes, lines = st['nodes'], st['lines']
    io = set(st['io'])
    cut = set()
    for i in st['snodes']:
        driven = i in io and any(x >= 0 for x in nodes[i]['ins'])
        if not driven:
            cut.add(i)
    n = len(nodes)
    need = [0 if i in cut else sum(1 for x in nd['ins'] if x >= 0) for i, nd in enumerate(nodes)]
    ready = [i for i in range(n) if need[i] == 0]
    order, seen = [], set()
    while ready:
        i = ready.pop(0)
        if i in seen:
            continue
        seen.add(i)
        order.append(i)
        for x in nodes[i]['outs']:
            if x >= 0:
                r = lines[x]['rdr']
                if r in cut:
                    continue
                need[r] -= 1
                if need[r] == 0:
                    ready.append(r)
    return order
