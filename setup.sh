#!/bin/sh
# Offline setup: nothing to build; parse every specification module with SANY and smoke-run TLC once.
cd "$(dirname "$0")/spec" || exit 1
rc=0
for f in *.tla; do
  out=$(java -cp /opt/veriftools/tla/tla2tools.jar:/opt/veriftools/tla/CommunityModules-deps.jar tla2sany.SANY "$f" 2>&1)
  if echo "$out" | grep -q -i -E "error|could not"; then echo "SANY failed on $f"; echo "$out" | tail -5; rc=1; fi
done
T=$(mktemp -d)
java -XX:+UseParallelGC -cp /opt/veriftools/tla/tla2tools.jar:/opt/veriftools/tla/CommunityModules-deps.jar tlc2.TLC -workers 4 -metadir "$T" -noGenerateSpecTE -deadlock -config Gen_Heap.cfg Heap > "$T/out" 2>&1 || { echo "TLC smoke run failed"; tail -5 "$T/out"; rc=1; }
rm -rf "$T"
mkdir -p ../evidence ../replays
/venv/bin/python -c "import numpy, lark" || rc=1
[ $rc = 0 ] && echo "setup ok"
exit $rc
